"""C15 - task.wait_until returns for the first qualifying trigger and always cleans up.

Workload: one service calls task.wait_until with a generated mix of state / event / MQTT / webhook / time
conditions, timeout (None, 0, T), state_check_now, state_hold, state_hold_false; timed occurrences (0.25 s
grid; timers off the grid) before, during and after the call; filters that raise.

Oracle: the reference "first qualifying occurrence after the call" (state part through sim.holdmodel) gives
the return dictionary class, payload and instant; 'timeout' / 'none' rules; then the census of
subscriptions, bus listeners, webhook/MQTT registrations, tasks and timers must equal the census taken before
the call - on every exit path.

Also generated: set-up failures (an expression of a later condition that does not parse; the MQTT subscription of
the call suspending for some passes or raising), occurrences right at the call / during that suspended
subscription, 'shutdown' among the time specifications, the polling idiom (true state expression + timeout=0),
and an occurrence a few ms before a timer instant of the wait with the loop stalled across it.

Fault enumeration: the scenario is re-run with the waiting task cancelled at every loop pass between the
call and its return (capped in the quick tier), through the reaper or a raw Task.cancel().
"""

from __future__ import annotations

import copy
import datetime as dt
import json
import random

from ..common import base_result, gen_cfg
from ..holdmodel import timeline
from ..world import World

PROPERTY = "C15"
LEVEL = "fault_enumeration"
RULE = (
    "seeded generation of one task.wait_until call (1-4 condition kinds, timeout None/0/T, check_now/hold/hold_false; "
    "10% per event-like condition an unparsable expression, 25% of time conditions with 'shutdown', 8% polling idiom, "
    "45% of MQTT waits with a suspended (1-7 passes) or failing subscription, 20% of waits with a timer an occurrence "
    "2-4 ms before the instant + stall) with <=15 timed occurrences around it; per scenario one fault-free run plus one run per cancellation point = "
    "every loop pass between the call and its return (capped at 30 evenly spread points in quick, complete in "
    "thorough); distinct = scenario digest; non-trivial = the wait had >= 2 condition kinds or a hold, and a "
    "cancellation landed while it was subscribed"
)
ASSUMPTIONS = [
    "occurrences are on a 0.25 s grid, timers (timeout, once(now+T), hold, hold_false) off the grid by >= 0.07 s, so "
    "the first qualifying occurrence is never decided by a tie; an already true state expression with state_check_now "
    "in effect and no state_hold is checked at the call, so it is the first qualifying occurrence whatever the "
    "timeout (0 included: reference.rst 'checks any state_trigger immediately ... and will return immediately if so')",
    "a set-up failure (an event/mqtt/webhook expression that does not parse, or the MQTT subscription raising because "
    "the client is not available) must end the call and leave nothing behind; what the call returns/raises is "
    "don't-care",
    "an occurrence that arrives while the call is still making a (slow) subscription may or may not count "
    "(reference.rst: events around the moment of the call can be missed): the return value is don't-care then, the "
    "clean-up is not",
    "the 'near' op puts one occurrence 2-4 ms before a timer instant of the wait and stalls the loop across it; if "
    "that occurrence itself qualifies, it or the timer may be returned (simultaneous for a stalled loop, 30 ms window)",
    "'shutdown' among the time specifications is not an instant and cannot occur while the call waits: the other "
    "conditions are unaffected by it, and alone (without timeout) it means 'none'",
    "when a condition's expression raises before the first qualifying occurrence the return value is don't-care "
    "(the property only requires clean-up on that path)",
    "State.notify_var_last (last notified values) is not part of the census; empty per-variable tables count as absent",
]
TIERS = {
    "quick": {"runs": 320, "chunk": 10, "max_points": 30, "chunk_timeout": 900},
    "thorough": {"runs": 4000, "chunk": 40, "max_points": 100000, "chunk_timeout": 3600},
}
REACH_PROBES = ["cancel_while_subscribed", "timeout_fired", "time_trigger_fired", "event_returned", "state_returned",
                "mqtt_returned", "webhook_returned", "none_returned", "filter_raised", "occurrence_before_call",
                "hold_in_wait", "timeout_zero", "immediate_check_now", "second_waiter_woke_on_same_occurrence",
                "timeout_zero_with_true_state", "setup_parse_error", "setup_parse_error_with_other_conditions",
                "subscribe_suspended", "subscribe_failed", "cancel_during_suspended_subscribe",
                "occurrence_during_suspended_subscribe", "returned_by_occurrence_in_setup",
                "shutdown_among_time_specs", "occurrence_just_before_timer_instant"]
SHRINK_LISTS = [["ops"], ["spec", "conds"]]
GRID = 0.25
EXPR = "pyscript.v == '1'"


def gen(rng: random.Random, tier: str) -> dict:
    cfg = gen_cfg(rng)
    cfg["drift"] = 0.0
    kinds = rng.sample(["state", "event", "mqtt", "webhook", "time"], rng.choice([1, 1, 2, 2, 3, 4]))
    conds = []
    for kind in sorted(kinds):
        cond = {"kind": kind}
        if kind == "state":
            cond.update({"check_now": rng.choice([None, None, False, True]),
                         "hold": rng.choice([None, None, 0.6, 1.1]),
                         "hold_false": rng.choice([None, None, None, 0.4])})
        elif kind in ("event", "mqtt", "webhook"):
            cond["filter"] = rng.choice([None, None, "n>1", "raise"])
        else:
            cond["spec"] = rng.choice(["once(now + 1.42s)", "once(now + 2.17s)", "once(now - 5s)",
                                       "period(now + 1.42s, 0.7s)"])
        conds.append(cond)
    # set-up failures: the expression of one event-like condition does not parse (the call must raise and leave
    # nothing behind, whichever conditions were set up before it)
    for cond in conds:
        if cond["kind"] in ("event", "mqtt", "webhook") and rng.random() < 0.1:
            cond["filter"] = "syntax"
    # 'shutdown' among the time specifications: not an instant, never occurs while waiting
    for cond in conds:
        if cond["kind"] == "time" and rng.random() < 0.25:
            cond["spec"] = rng.choice(["shutdown", [cond["spec"], "shutdown"], ["shutdown", cond["spec"]]])
    timeout = rng.choice([None, None, 0, 0.97, 1.93])
    initial_v = rng.choice(["0", "1"])
    if rng.random() < 0.08:
        # the polling idiom: "is it true right now?" = a state condition checked at the call and a timeout of 0
        timeout = 0
        state = next((c for c in conds if c["kind"] == "state"), None)
        if state is None:
            state = {"kind": "state"}
            conds.append(state)
            conds.sort(key=lambda c: c["kind"])
        state.update({"check_now": rng.choice([None, True]), "hold": None, "hold_false": rng.choice([None, None, 0.4])})
        initial_v = rng.choice(["0", "1", "1"])
    cfg["initial_states"] = {"pyscript.v": [initial_v, {}], "pyscript.u": ["0", {}]}
    ops = []
    k = -rng.choice([0, 2, 3])
    sid = 0
    for _ in range(rng.randint(2, 15 if tier == "thorough" else 12)):
        k += rng.choice([0, 1, 1, 2, 3])
        roll = rng.random()
        sid += 1
        data = {"n": rng.randint(0, 3), "kind": rng.choice(["a", "7"]), "id": sid}
        if roll < 0.35:
            ops.append({"k": k, "kind": "set", "e": "pyscript.v", "s": rng.choice(["0", "1", "2"])})
        elif roll < 0.45:
            ops.append({"k": k, "kind": "set", "e": "pyscript.u", "s": rng.choice(["0", "1"])})
        elif roll < 0.65:
            ops.append({"k": k, "kind": "fire", "type": rng.choice(["ev_w", "ev_w", "ev_other"]), "data": data})
        elif roll < 0.8:
            ops.append({"k": k, "kind": "mqtt", "topic": rng.choice(["t/w", "t/w", "t/other"]),
                        "payload": json.dumps(data, sort_keys=True)})
        elif roll < 0.95:
            ops.append({"k": k, "kind": "webhook", "id": "hook_w", "payload": data})
        else:
            ops.append({"k": k, "kind": "stall", "s": 0.02})
    # an occurrence a few ms before a timer instant of the wait (time specification or timeout), and the loop busy
    # across the instant: the wake-up for the occurrence is handled when the instant has just passed
    instants = []
    for cond in conds:
        if cond["kind"] == "time":
            instants += [t for t in (1.42, 2.17) if f"now + {t}s" in str(cond["spec"])]
    if timeout:
        instants.append(timeout)
    others = sorted(c["kind"] for c in conds if c["kind"] != "time")
    if instants and others and rng.random() < 0.4:
        sid += 1
        data = {"n": rng.randint(0, 3), "kind": rng.choice(["a", "7"]), "id": sid}
        inner = {
            "state": {"kind": "set", "e": "pyscript.v", "s": rng.choice(["0", "2", "2"])},
            "event": {"kind": "fire", "type": "ev_w", "data": data},
            "mqtt": {"kind": "mqtt", "topic": "t/w", "payload": json.dumps(data, sort_keys=True)},
            "webhook": {"kind": "webhook", "id": "hook_w", "payload": data},
        }[rng.choice(others)]
        at = (min(instants) if rng.random() < 0.8 else rng.choice(instants)) - rng.choice([0.002, 0.004])
        ops.append({"k": int(at / GRID) + 0.5, "kind": "near", "at": round(at, 6), "op": inner,
                    "gap": rng.choice([0, 0, 0, 0, 1, 3]), "stall": 0.012})
    # a second task that sits in its own wait_until on the same event type / topic / webhook id the whole time and
    # scribbles over the dictionary it is handed: what one waiter does with its result is not the other's business
    spec = {"conds": conds, "timeout": timeout, "buddy": rng.random() < 0.4}
    # the MQTT client is slow (the subscription of the call suspends for some loop passes, as Home Assistant's
    # async_subscribe does while the client is not ready) or not available (it then raises)
    if "mqtt" in kinds and rng.random() < 0.45:
        spec["mqtt_sub"] = {"passes": rng.choice([1, 2, 4, 7]), "fail": rng.random() < 0.25}
        if rng.random() < 0.5:
            # something happens right at the call, i.e. while the subscription is still being made
            sid += 1
            data = {"n": rng.randint(0, 3), "kind": rng.choice(["a", "7"]), "id": sid}
            ops.append(rng.choice([
                {"k": 0, "kind": "set", "e": "pyscript.v", "s": rng.choice(["0", "1", "2"])},
                {"k": 0, "kind": "fire", "type": "ev_w", "data": data},
                {"k": 0, "kind": "webhook", "id": "hook_w", "payload": data},
            ]))
    fault = {"mode": "enumerate", "via": rng.choice(["reaper", "raw"]), "iter": None}
    return {"cfg": cfg, "spec": spec, "fault": fault, "ops": ops, "max_points": TIERS[tier]["max_points"]}


def _flt_src(flt, kind):
    if kind == "event":
        var = {"n": "n", "kind": "kind"}
    elif kind == "mqtt":
        var = {"n": "payload_obj['n']", "kind": "payload_obj['kind']"}
    else:
        var = {"n": "payload['n']", "kind": "payload['kind']"}
    if flt == "syntax":
        return f"{var['n']} > "
    return f"{var['n']} > 1" if flt == "n>1" else f"int({var['kind']}) >= 0"


def _call_src(spec: dict) -> str:
    kw = []
    for cond in spec["conds"]:
        kind = cond["kind"]
        if kind == "state":
            kw.append(f"state_trigger={EXPR!r}")
            if cond["check_now"] is not None:
                kw.append(f"state_check_now={cond['check_now']}")
            if cond["hold"] is not None:
                kw.append(f"state_hold={cond['hold']}")
            if cond["hold_false"] is not None:
                kw.append(f"state_hold_false={cond['hold_false']}")
        elif kind == "time":
            kw.append(f"time_trigger={cond['spec']!r}")
        else:
            target = {"event": "ev_w", "mqtt": "t/w", "webhook": "hook_w"}[kind]
            if cond["filter"]:
                kw.append(f"{kind}_trigger=[{target!r}, {_flt_src(cond['filter'], kind)!r}]")
            else:
                kw.append(f"{kind}_trigger={target!r}")
    if spec["timeout"] is not None:
        kw.append(f"timeout={spec['timeout']}")
    return f"task.wait_until({', '.join(kw)})"


def render(scn: dict) -> dict:
    lines = [
        "@service",
        "def waiter():",
        "    sim.mark('w', 'pre', me=task.current_task())",
        "    try:",
        f"        ret = {_call_src(scn['spec'])}",
        "        sim.mark('w', 'ret', **ret)",
        "    except Exception as exc:",
        "        sim.mark('w', 'exc', name=type(exc).__name__)",
        "",
    ]
    if scn["spec"].get("buddy"):
        lines += [
            "@time_trigger('startup')",
            "def buddy():",
            "    while True:",
            "        got = task.wait_until(event_trigger='ev_w', mqtt_trigger='t/w', webhook_trigger='hook_w')",
            "        got.clear()",
            "        got['scribbled'] = True",
            "        sim.mark('buddy', 'woke')",
            "",
        ]
    return {"pyscript/c15.py": "\n".join(lines) + "\n"}


def normalize(scn: dict) -> dict | None:
    if not scn["spec"]["conds"] and scn["spec"]["timeout"] is None:
        return None
    return scn


def simplify(scn: dict):
    if scn["spec"]["timeout"] is not None:
        cand = copy.deepcopy(scn)
        cand["spec"]["timeout"] = None
        yield cand
    if scn["spec"].get("buddy"):
        cand = copy.deepcopy(scn)
        cand["spec"]["buddy"] = False
        yield cand
    if scn["spec"].get("mqtt_sub"):
        cand = copy.deepcopy(scn)
        del cand["spec"]["mqtt_sub"]
        yield cand
        if scn["spec"]["mqtt_sub"]["passes"] > 1:
            cand = copy.deepcopy(scn)
            cand["spec"]["mqtt_sub"]["passes"] = 1
            yield cand
    for ci, cond in enumerate(scn["spec"]["conds"]):
        for key in ("hold", "hold_false", "check_now", "filter"):
            if cond.get(key) is not None:
                cand = copy.deepcopy(scn)
                cand["spec"]["conds"][ci][key] = None
                yield cand
        if isinstance(cond.get("spec"), list):
            for part in cond["spec"]:
                cand = copy.deepcopy(scn)
                cand["spec"]["conds"][ci]["spec"] = part
                yield cand
    for key, val in (("timer_late_ms", 0.0), ("cost_us", 50), ("exec_latency_ms", [0.0, 0.0]), ("set_order_salt", 0)):
        if scn["cfg"].get(key) != val:
            cand = copy.deepcopy(scn)
            cand["cfg"][key] = val
            yield cand


def warmup() -> None:
    scn = gen(random.Random(1), "quick")
    scn["fault"] = {"mode": "none", "via": "raw", "iter": None}
    run(scn)


# ------------------------------------------------------------------ execution
def _census(w: World) -> dict:
    import asyncio

    cen = w.census()
    out = {k: cen[k] for k in ("listeners", "webhooks", "mqtt_subs", "timers", "event_notify", "mqtt_notify",
                               "webhook_notify", "our_tasks", "task2cb", "task2context")}
    out["state_notify"] = {k: v for k, v in cen["state_notify"].items() if v}
    out["all_tasks"] = sum(1 for t in asyncio.all_tasks(w.loop) if not t.done())
    return out


def execute(scn: dict, k_cancel: int | None) -> dict:
    spec = scn["spec"]
    w = World(scn["cfg"], render(scn))
    obs: dict = {"task": None, "cancel": None, "stim": []}
    via = scn["fault"]["via"]

    def do_cancel():
        from custom_components.pyscript.function import Function

        task = obs["task"]
        done = task.done() if task else None
        returned = any(m["args"][:2] in (["w", "ret"], ["w", "exc"]) for m in w.marks)
        if obs.get("end_iter") is not None:
            return  # the scenario is over (tear-down): not a cancellation point
        obs["cancel"] = {"iter": w.loop.iterations, "vt": w.loop.vt, "done": done, "returned": returned,
                         "in_sub": bool(obs.get("in_sub"))}
        if task is None or done or returned:
            return
        w.fault("cancel_at_iter")
        w.probe("cancel_while_subscribed")
        if obs.get("in_sub"):
            w.probe("cancel_during_suspended_subscribe")
        if via == "reaper":
            Function.reaper_cancel(task)
        else:
            task.cancel()

    def hook(rec):
        if rec["args"][:2] == ["w", "pre"]:
            obs["task"] = rec["task_obj"]
            obs["pre_iter"] = w.loop.iterations
            obs["t0"] = rec["vt"]
            obs["wall0"] = rec["wall"]
            if k_cancel is not None:
                w.loop.at_iteration(k_cancel, do_cancel)
        elif rec["args"][:1] == ["w"]:
            obs["ret_iter"] = w.loop.iterations

    w.mark_hook = hook

    # ---- seam: the first MQTT subscription made by the waiting call is slow (suspends) or fails
    mqtt_sub = spec.get("mqtt_sub")
    if mqtt_sub:
        real_subscribe = w.broker.async_subscribe

        async def slow_subscribe(hass, topic, msg_callback, qos=0, encoding="utf-8", job_type=None):
            import asyncio

            from homeassistant.exceptions import HomeAssistantError

            if obs["task"] is not None and asyncio.current_task() is obs["task"] and not obs.get("sub_seen"):
                obs["sub_seen"] = True
                w.fault("mqtt_subscribe_suspended")
                w.probe("subscribe_suspended")
                obs["in_sub"] = True
                try:
                    for _ in range(mqtt_sub["passes"]):
                        await asyncio.sleep(0)
                finally:
                    obs["in_sub"] = False
                    obs["sub_end_iter"] = w.loop.iterations
                if mqtt_sub.get("fail"):
                    obs["sub_failed"] = True
                    w.fault("mqtt_subscribe_failed")
                    w.probe("subscribe_failed")
                    raise HomeAssistantError("mqtt: client not available")
            return await real_subscribe(hass, topic, msg_callback, qos=qos, encoding=encoding, job_type=job_type)

        w.broker.async_subscribe = slow_subscribe

    async def driver(w: World):
        from homeassistant.core import Context

        await w.started()
        await w.drain()
        obs["census0"] = _census(w)
        base = w.loop.vt
        obs["base"] = base
        ops = sorted(scn["ops"], key=lambda op: op["k"])
        t_call = base + 1.0
        called = False

        async def call_now():
            nonlocal called
            called = True
            await w.call_service("pyscript", "waiter", {}, blocking=False)

        for op in ops:
            target = t_call + op["k"] * GRID
            if not called and target >= t_call:
                if t_call > w.loop.vt:
                    await w.sleep(t_call - w.loop.vt)
                await call_now()
                await w.passes(3)
            near = None
            if op["kind"] == "near":
                # relative to the instant of the call itself (the timers of the wait are)
                near = op
                target = (obs["t0"] if obs.get("t0") is not None else t_call) + op["at"]
                op = op["op"]
            if target > w.loop.vt:
                await w.sleep(target - w.loop.vt)
            rec = {"vt": w.loop.vt, "op": op}
            if near:
                rec["near"] = True
                w.probe("occurrence_just_before_timer_instant")
            if obs.get("in_sub"):
                rec["in_setup"] = True
            if op["kind"] == "set":
                w.set_state(op["e"], op["s"], {})
            elif op["kind"] == "fire":
                ctx = Context()
                rec["ctx"] = ctx.id
                w.fire(op["type"], op["data"], context=ctx)
            elif op["kind"] == "mqtt":
                w.mqtt_publish(op["topic"], op["payload"])
            elif op["kind"] == "webhook":
                import asyncio

                try:
                    await w.webhook_post(op["id"], op["payload"])
                except (Exception, asyncio.CancelledError) as exc:  # pylint: disable=broad-except
                    # the handler pyscript registered raised into Home Assistant's webhook dispatcher
                    rec["exc"] = repr(exc)
                    w.ha_exceptions.append({"vt": w.vts(), "message": f"webhook handler raised {type(exc).__name__}",
                                            "exc": repr(exc)})
                    w.trace.append(["ha_err", w.vts(), "webhook", type(exc).__name__])
            elif op["kind"] == "stall":
                w.loop.stall(op["s"])
                w.fault("stall")
            obs["stim"].append(rec)
            if near:
                if near["gap"]:
                    await w.passes(near["gap"])
                w.loop.stall(near["stall"])
                w.fault("stall")
        if not called:
            if t_call > w.loop.vt:
                await w.sleep(t_call - w.loop.vt)
            await call_now()
        last = max([op["k"] for op in ops] + [0])
        await w.sleep(max(t_call + last * GRID, w.loop.vt) + 5.0 - w.loop.vt)
        obs["end_iter"] = w.loop.iterations - 2  # cancellations must land before the final sleep is over
        await w.drain()
        obs["finished"] = obs["task"] is not None and obs["task"].done()
        obs["census1"] = _census(w)
        obs["end"] = w.loop.vt

    w.run(driver)
    obs["w"] = w
    return obs


# ------------------------------------------------------------------ reference
def expected(scn: dict, obs: dict, dev: frozenset = frozenset()):
    """Return (list of acceptable outcomes, dontcare flag). An outcome is (t, kind, payload-or-None).
    ``dev``: explanatory deviations of the state part (sim.holdmodel.DEVIATIONS), used only for labelling."""
    spec = scn["spec"]
    w = obs["w"]
    t0 = obs["t0"]
    cands = []
    raised_at = None
    conds = {c["kind"]: c for c in spec["conds"]}
    stim = [s for s in obs["stim"] if s["vt"] > t0 - 1e-9]
    if any(s["vt"] <= t0 for s in obs["stim"]):
        w.probe("occurrence_before_call")
    immediate = []
    setup_dontcare = False
    if any(c.get("filter") == "syntax" for c in spec["conds"]):
        # an expression that does not parse: the call raises; what it would have returned is not defined
        w.probe("setup_parse_error")
        if len(spec["conds"]) > 1:
            w.probe("setup_parse_error_with_other_conditions")
        setup_dontcare = True
    if obs.get("sub_failed"):
        setup_dontcare = True
    targets = {"fire": ("type", "ev_w", "event"), "mqtt": ("topic", "t/w", "mqtt"), "webhook": ("id", "hook_w", "webhook")}
    for s in stim:
        if not s.get("in_setup"):
            continue
        op = s["op"]
        if (op["kind"] == "set" and op["e"] == "pyscript.v" and "state" in conds) or (
                op["kind"] in targets and op[targets[op["kind"]][0]] == targets[op["kind"]][1]
                and targets[op["kind"]][2] in conds):
            # an occurrence while the call is still subscribing: the documentation leaves open whether it counts
            w.probe("occurrence_during_suspended_subscribe")
            setup_dontcare = True
    # ---- state
    if "state" in conds:
        cond = conds["state"]
        val = scn["cfg"]["initial_states"]["pyscript.v"][0]
        evals = []
        for s in obs["stim"]:
            op = s["op"]
            if op["kind"] == "set" and op["e"] == "pyscript.v":
                if s["vt"] <= t0:
                    val = op["s"]
                    continue
        cur = val
        for s in stim:
            op = s["op"]
            if op["kind"] == "set" and op["e"] == "pyscript.v" and op["s"] != cur:
                args = {"trigger_type": "state", "var_name": "pyscript.v", "value": ["SV", op["s"], {}],
                        "old_value": ["SV", cur, {}]}
                evals.append({"t": s["vt"], "truth": op["s"] == "1", "args": args})
                cur = op["s"]
        check_now = True if cond["check_now"] is None else cond["check_now"]
        fires = timeline(t0, val == "1", evals, check_now, cond["hold"], cond["hold_false"], obs["end"], first_only=True,
                         dev=dev)
        if cond["hold"]:
            w.probe("hold_in_wait")
        for f in fires:
            cands.append((f["t"], "state", f["args"]))
            if f["t"] <= t0 + 1e-9:
                immediate.append("state")
                w.probe("immediate_check_now")
    # ---- event / mqtt / webhook
    for kind, target_key, target in (("event", "type", "ev_w"), ("mqtt", "topic", "t/w"), ("webhook", "id", "hook_w")):
        if kind not in conds:
            continue
        flt = conds[kind]["filter"]
        for s in stim:
            op = s["op"]
            if op["kind"] != {"event": "fire", "mqtt": "mqtt", "webhook": "webhook"}[kind] or op[target_key] != target:
                continue
            data = op["data"] if kind == "event" else (json.loads(op["payload"]) if kind == "mqtt" else op["payload"])
            if flt == "raise":
                try:
                    int(data["kind"])
                except ValueError:
                    if raised_at is None or s["vt"] < raised_at:
                        raised_at = s["vt"]
                        w.probe("filter_raised")
                    break
            elif flt == "n>1" and not data["n"] > 1:
                continue
            if kind == "event":
                payload = {"trigger_type": "event", "event_type": "ev_w", **data}
            elif kind == "mqtt":
                payload = {"trigger_type": "mqtt", "topic": "t/w", "payload": op["payload"], "qos": 0, "retain": False,
                           "payload_obj": data}
            else:
                payload = {"trigger_type": "webhook", "webhook_id": "hook_w", "payload": data}
            cands.append((s["vt"], kind, payload))
            break
    # ---- time
    has_future_time = False
    if "time" in conds:
        spec_t = str(conds["time"]["spec"])
        if "shutdown" in spec_t:
            w.probe("shutdown_among_time_specs")
        if "now + 1.42s" in spec_t:
            cands.append((t0 + 1.42, "time", None))
            has_future_time = True
        elif "now + 2.17s" in spec_t:
            cands.append((t0 + 2.17, "time", None))
            has_future_time = True
    # ---- timeout
    if spec["timeout"] is not None:
        cands.append((t0 + spec["timeout"], "timeout", {"trigger_type": "timeout"}))
        if spec["timeout"] == 0:
            w.probe("timeout_zero")
    if setup_dontcare:
        return [], True
    only_time = set(conds) == {"time"}
    if only_time and not has_future_time and spec["timeout"] is None:
        return [(t0, "none", {"trigger_type": "none"})], False
    if not cands:
        return [], raised_at is not None
    cands.sort(key=lambda c: c[0])
    first_t = cands[0][0]
    if raised_at is not None and raised_at <= first_t + 1e-9:
        return [], True
    tie = 1e-6
    if any(s.get("near") for s in stim):
        # an occurrence and a timer instant inside one stall of the loop are simultaneous for it
        tie = 0.03
    ok = [c for c in cands if c[0] <= first_t + tie]
    if immediate and first_t <= t0 + 1e-9:
        # the state expression is checked at the call, before anything is waited for: an expression that is
        # already true is the first qualifying occurrence, whatever the timeout (0 included)
        if len(ok) > 1:
            w.probe("timeout_zero_with_true_state")
        ok = [c for c in ok if c[1] == "state"]
    return ok, False


def _outcome(scn: dict, obs: dict, rets: list, excs: list, kinds: list, dev: frozenset) -> list:
    """Mismatches between the observed return and the reference first qualifying occurrence."""
    w = obs["w"]
    out = []
    exp, dontcare = expected(scn, obs, dev)
    slack = 0.08 + w.cfg["timer_late_ms"] * 1e-3 + 80 * w.loop.cost
    if dontcare:
        return out
    if not exp:
        if rets or excs:
            out.append(("C15.unexpected_return", {"kinds": "+".join(kinds)},
                        f"{_call_src(scn['spec'])} returned {[m['kw'] for m in rets + excs]} although no condition "
                        f"occurred after the call"))
        return out
    if len(rets) != 1:
        out.append(("C15.no_return", {"want": exp[0][1], "timeout": scn["spec"]["timeout"] == 0 and "zero" or "other"},
                    f"{_call_src(scn['spec'])} returned {len(rets)} times (exceptions {[m['kw'] for m in excs]}); expected "
                    f"{exp[0][1]} at +{exp[0][0] - obs['t0']:.3f}s"))
        return out
    got = rets[0]
    if not dev and scn["spec"].get("buddy") and any(
            m["args"][:2] == ["buddy", "woke"] and abs(m["vt"] - got["vt"]) < 0.05 for m in w.marks):
        w.probe("second_waiter_woke_on_same_occurrence")
    got_kw = {k: v for k, v in got["kw"].items() if k != "context"}
    tt = got_kw.get("trigger_type")
    match = next((cand for cand in exp if cand[1] == tt), None)
    if not dev:
        w.probe({"timeout": "timeout_fired", "time": "time_trigger_fired", "event": "event_returned",
                 "state": "state_returned", "mqtt": "mqtt_returned", "webhook": "webhook_returned",
                 "none": "none_returned"}.get(tt, "other_returned"))
    if match is None:
        out.append(("C15.wrong_trigger", {"want": exp[0][1], "got": str(tt)},
                    f"{_call_src(scn['spec'])} returned {got_kw} at +{got['vt'] - obs['t0']:.3f}s; the first "
                    f"qualifying occurrence is {exp[0][1]} at +{exp[0][0] - obs['t0']:.3f}s"))
        return out
    dtm = got["vt"] - match[0]
    if not -1e-6 <= dtm <= slack:
        out.append(("C15.return_time", {"want": match[1]},
                    f"{_call_src(scn['spec'])} returned {tt} at +{got['vt'] - obs['t0']:.3f}s, expected at "
                    f"+{match[0] - obs['t0']:.3f}s"))
    if match[2] is not None and got_kw != w.norm(match[2]):
        out.append(("C15.return_payload", {"want": match[1]},
                    f"{_call_src(scn['spec'])} returned {got_kw}, expected {w.norm(match[2])}"))
    if match[1] == "time":
        ttime = got["raw_kw"].get("trigger_time")
        want_wall = obs["wall0"] + dt.timedelta(seconds=match[0] - obs["t0"])
        if not isinstance(ttime, dt.datetime) or abs((ttime - want_wall).total_seconds()) > 0.2:
            out.append(("C15.return_payload", {"want": "time"},
                        f"trigger_time {ttime!r} is not the denoted instant {want_wall!r}"))
    return out


def _near_race(scn: dict, obs: dict) -> bool:
    """The reference outcome is a timer instant (time specification or timeout) that a 'near' occurrence preceded
    by a few ms - used only to label a mismatch."""
    exp, dontcare = expected(scn, obs)
    if dontcare or not exp or exp[0][1] not in ("time", "timeout"):
        return False
    return any(s.get("near") and -1e-9 <= exp[0][0] - s["vt"] <= 0.03 for s in obs["stim"])


def _short(val, other):
    """Only the entries of a census table that differ from the other side."""
    if isinstance(val, dict) and isinstance(other, dict):
        return {k: v for k, v in val.items() if other.get(k) != v}
    return val


def judge(scn: dict, obs: dict, sub: str) -> list:
    w = obs["w"]
    out = []
    cancel = obs.get("cancel")
    landed = bool(cancel and cancel["done"] is False and not cancel["returned"])
    exit_path = "cancelled" if landed else "return"

    def viol(cls, sig, detail):
        out.append({"class": cls, "sig": {"subsystem": sub, **sig}, "detail": detail, "t": 0.0})

    rets = [m for m in w.marks if m["args"][:2] == ["w", "ret"]]
    excs = [m for m in w.marks if m["args"][:2] == ["w", "exc"]]
    kinds = sorted(c["kind"] for c in scn["spec"]["conds"])
    if obs.get("t0") is None:
        viol("C15.not_called", {}, "the waiter service never started")
        return out
    parse_error = any(c.get("filter") == "syntax" for c in scn["spec"]["conds"])
    if excs:
        exit_path = "exception"
        if parse_error or obs.get("sub_failed"):
            exit_path = "setup_exception"  # the call raised while it was setting its conditions up
    if landed and cancel.get("in_sub"):
        exit_path = "cancelled_in_setup"  # cancelled while a subscription of the set-up phase was suspended
    if exit_path == "return" and rets and obs.get("sub_end_iter") is not None and obs.get("ret_iter") is not None \
            and obs["ret_iter"] - obs["sub_end_iter"] <= 1:
        exit_path = "return_in_setup"  # what ended the wait happened while a subscription was still suspended
        w.probe("returned_by_occurrence_in_setup")
    # ---- outcome (fault-free path only)
    if not landed:
        found = _outcome(scn, obs, rets, excs, kinds, frozenset())
        if found:
            # label: does an already recorded deviation of the state part (C05 findings) explain it?
            import itertools

            from ..holdmodel import DEVIATIONS

            if sub == "new":
                cands = [d for d in DEVIATIONS if d != "wait_until_init_false_does_not_start_false_period"]
            else:
                cands = ["wait_until_init_false_does_not_start_false_period"]
            why = "unexplained"
            if "state" in kinds:
                for size in range(1, len(cands) + 1):
                    hit = None
                    for combo in itertools.combinations(cands, size):
                        if not _outcome(scn, obs, rets, excs, kinds, frozenset(combo)):
                            hit = combo
                            break
                    if hit:
                        why = "+".join(hit)
                        break
            for cls, sig, detail in found:
                if why != "unexplained":
                    sig = {"why": why}
                elif _near_race(scn, obs):
                    sig = {**sig, "race": "occurrence_just_before_timer_instant"}
                viol(cls, sig, detail)
    # ---- the task must be over and everything released
    if not obs["finished"]:
        exp, dontcare = expected(scn, obs) if not landed else ([], True)
        if landed or exp or parse_error:
            if parse_error and not landed:
                exit_path = "setup_exception"
            sig = {"exit": exit_path}
            if not landed and _near_race(scn, obs):
                sig["race"] = "occurrence_just_before_timer_instant"
            viol("C15.task_never_finished", sig, "the waiting task is still alive 5 s after the last occurrence")
        return out
    c0, c1 = obs["census0"], obs["census1"]
    leaked = sorted(k for k in c0 if c0[k] != c1[k])
    if leaked:
        group = {"state_notify": "state", "event_notify": "event", "listeners": "event", "mqtt_notify": "mqtt",
                 "mqtt_subs": "mqtt", "webhook_notify": "webhook", "webhooks": "webhook"}
        what = "+".join(sorted({group.get(k, "tasks") for k in leaked}))
        viol("C15.leak_after_exit", {"exit": exit_path},
             f"{_call_src(scn['spec'])} exit={exit_path}" + (f" (cancel via {scn['fault']['via']} at pass "
             f"+{scn['fault'].get('iter')})" if landed else "") + f": leaked {what}: census before the call "
             f"{ {k: c0[k] for k in leaked} } != after the task ended { {k: c1[k] for k in leaked} }")
    if w.ha_exceptions:
        viol("C15.escaped_to_ha", {"exit": exit_path}, f"Home Assistant logged/handled: {w.ha_exceptions[:2]}")
    return out


def run(scn: dict) -> dict:
    fault = scn["fault"]
    sub = "legacy" if scn["cfg"]["legacy"] else "new"
    base = execute(scn, None)
    w0 = base["w"]
    violations = judge(scn, base, sub)
    n_points = landed = 0
    patch = None
    agg_f: dict = {}
    agg_r: dict = {}
    iters = w0.loop.iterations
    sim_s = w0.loop.vt - w0.clock.vt0
    if not violations and fault["mode"] != "none" and base.get("pre_iter") is not None:
        last = min(base.get("ret_iter") or base["end_iter"], base["end_iter"])
        span = max(1, min(last - base["pre_iter"] + 2, base["end_iter"] - base["pre_iter"] - 1, 400))
        if fault["mode"] == "single":
            points = [fault["iter"]]
        else:
            points = list(range(1, span + 1))
            cap = scn.get("max_points") or 30
            if len(points) > cap:
                stride = len(points) / cap
                points = sorted({points[int(i * stride)] for i in range(cap)})
        for k in points:
            scn_k = dict(scn, fault=dict(fault, iter=k))
            obs = execute(scn_k, k)
            n_points += 1
            ww = obs["w"]
            for key, val in ww.faults.items():
                agg_f[key] = agg_f.get(key, 0) + val
            for key, val in ww.reach.items():
                agg_r[key] = agg_r.get(key, 0) + val
            iters += ww.loop.iterations
            sim_s += ww.loop.vt - ww.clock.vt0
            if obs["cancel"] and obs["cancel"]["done"] is False and not obs["cancel"]["returned"]:
                landed += 1
            vs = judge(scn_k, obs, sub)
            if vs:
                violations = vs
                patch = {"fault": {"mode": "single", "via": fault["via"], "iter": k}}
                break
    rich = len(scn["spec"]["conds"]) >= 2 or any(c.get("hold") for c in scn["spec"]["conds"])
    res = base_result(w0, violations, bool(rich and landed), {"cancel_points": n_points, "cancel_landed": landed})
    for k, v in agg_f.items():
        res["faults"][k] = res["faults"].get(k, 0) + v
    for k, v in agg_r.items():
        res["reach"][k] = res["reach"].get(k, 0) + v
    res["iterations"] = iters
    res["sim_seconds"] = round(sim_s, 3)
    if patch:
        res["scn_patch"] = patch
    return res


def evidence_extra(lines: list) -> dict:
    pts = sum((ln.get("extra") or {}).get("cancel_points", 0) for ln in lines)
    landed = sum((ln.get("extra") or {}).get("cancel_landed", 0) for ln in lines)
    return {"cancel_points_enumerated": pts, "cancellations_landed_on_waiting_task": landed,
            "executions": pts + len(lines)}
