"""C06 - time triggers fire at exactly the instants their specification denotes.

What simulation decides: the *running* trigger on a virtual clock - one run per denoted instant with
trigger_time equal to it, strictly increasing, none skipped or repeated, startup/shutdown once per
definition/removal, cron following the local wall clock and period keeping its spacing across a DST
change - under clock drift (early wake-ups exercise the re-wait loops), timer lateness, sub-second
start instants, DST days, several specifications, both subsystems and reload at arbitrary instants.

Besides decorated functions the workload contains *waiters*: long-running functions that call
task.wait_until(time_trigger=<1-2 specifications>, ...) in a loop, alone or together with state / event /
MQTT / webhook conditions (optionally state_hold), with seeded pauses between the calls, while the driver
pokes those other conditions - mostly without satisfying them (a watched variable changes but the
expression stays false, an event / message / request whose filter is false, a state_hold that is started
and cancelled), sometimes satisfying them.  Every call is a trigger of its own: 'now' is the instant the
call began, and the call has to return trigger_type "time" at the earliest denoted instant after that,
with trigger_time equal to it, however often it is woken up in between.

Some of the decorated functions carry one more trigger decorator (state / event / MQTT / webhook) whose condition
the driver's pokes never meet; pokes of waiters and of such functions can be *aimed*: delivered 0-6 loop passes
before the next instant the target's specifications denote, so that the trigger is handling the notification while
the instant passes.  Times of day are also written with fractional seconds (h:m:s.f); instants given by absolute
specifications are compared to the microsecond.

Oracle: sim.calendar enumerates the denoted instants in the simulated window from the documentation.
"""

from __future__ import annotations

import copy
import datetime as dt
import random

from .. import calendar as C
from ..common import apply_common, base_result, gen_cfg
from ..world import World

PROPERTY = "C06"
LEVEL = "exploration"
RULE = (
    "seeded generation of 1-3 functions x 1-3 time specifications (once/period/cron over the documented date, time "
    "and offset grammar) run for a simulated window of minutes (second-level periods), hours (minute-level) or up "
    "to 3 days (daily/cron), on ordinary and DST-transition days in 4 time zones, with drift, timer lateness, "
    "stalls and optional reload; times of day with a decimal fraction of a second (h:m:s.f, 1-6 digits) in 15-30% of "
    "the once()/period() time-of-day forms; in 30% of the runs ~70% of the functions carry one more trigger decorator "
    "(state/event/mqtt/webhook) that never qualifies, with 0-6 pokes of it, half of them aimed 0-6 loop passes before "
    "the function's next denoted instant (40% of the non-qualifying waiter pokes are aimed the same way); in the "
    "non-steered half of the runs 2 direct successor probes of once(<weekday> h:m[:s]) for a trigger first evaluated on "
    "that weekday before / after the time or on another weekday, 'now' from there up to the first occurrence; "
    "in 40% of the runs additionally 1-2 waiter functions that loop over "
    "task.wait_until(time_trigger=1-2 such specifications [+ state/event/mqtt/webhook conditions, state_hold]) with "
    "seeded pauses, and 0-8 pokes of those other conditions at seeded instants (non-qualifying, 15% qualifying, "
    "hold start+cancel); distinct = scenario digest; non-trivial = at least 3 denoted instants fired"
)
ASSUMPTIONS = [
    "the successor function timer_trigger_next is a pure function; besides the 'now' values the simulated triggers "
    "visit it is probed directly (a differential check riding on the scenario, not a simulation result) at 'now' "
    "values exactly on denoted instants, 1 us either side and at random times, on non-DST days only; in half of the "
    "runs (spec.steer false) also for once(2/29 hh:mm) around leap and ordinary years (accepted: the next real 29th of "
    "February, or the 2/28 / 3/1 reading for the years without one) and for period(<date time>, 0.1-1.5 s)",
    "wall-clock labels inside a DST gap/fold hour are don't-care; for period() across a DST change only absolute "
    "spacing is required (the naive label is don't-care); cron and once follow the local wall clock",
    "once(<weekday> ..): only the first occurrence after the trigger's first evaluation is required (the docs say "
    "'once on that day of the week': it is denoted both when that means once and when it means every week) - today if "
    "the trigger starts on that weekday before the time, a week later if it starts after the time (asked from the "
    "successor function directly, for every 'now' up to that occurrence); whether it comes again a week after it has "
    "fired is don't-care; period() with weekday dates and the today/tomorrow forms are not generated (the "
    "documentation does not describe them)",
    "an instant given by an absolute specification (date / time of day with or without fractional seconds, crontab) "
    "is denoted to the microsecond: the computed next time and trigger_time have to equal it (now-relative instants "
    "are known to the oracle to a few loop passes only)",
    "a @time_trigger function that also has a state/event/mqtt/webhook trigger decorator still runs once per denoted "
    "instant; the pokes of that other trigger never meet its condition (runs with another trigger_type are not "
    "judged here); a poke aimed at an instant may land a few passes before or after it",
    "an instant may be skipped or fire late only if the loop was stalled past it (a stall that begins within the "
    "timing slack after the instant counts: the instant of a now-relative specification is known to the oracle "
    "only to a few loop passes); clock steps are not injected",
    "sunrise/sunset come from the astral library (treated as environment, same location as the harness)",
    "task.wait_until(time_trigger=..): each call is one trigger whose 'now' is the instant the call began (known to "
    "a few loop passes: an instant that close to the beginning may or may not count); required is the return at the "
    "first denoted instant after it with trigger_type 'time' and that trigger_time, unless a qualifying poke of "
    "another condition was sent before (then only 'no denoted instant was passed over before the return' is judged; "
    "which of the other conditions ends the call is C15's subject); a call pending at a reload or at the end is "
    "judged up to there",
]
TIERS = {
    "quick": {"runs": 2200, "chunk": 70},
    "thorough": {"runs": 40000, "chunk": 200},
}
REACH_PROBES = ["successor_probe", "successor_probe_yearly", "successor_probe_at_dst_change", "successor_probe_leap_day_spec",
                "successor_probe_sub_second_period", "dst_day_crossed", "early_wakeup_rewait", "two_specs_one_decorator", "startup_fired", "shutdown_fired",
                "reload_mid_run", "stall_past_instant", "cron_step_or_range", "period_with_end", "sub_second_start",
                "sunrise_or_sunset", "weekly_or_yearly", "wait_until_time_return", "wait_until_now_relative",
                "wait_until_with_other_triggers", "wait_until_woken_not_qualifying", "wait_until_woken_now_relative",
                "wait_until_other_trigger_first", "wait_until_hold_started_and_cancelled", "wait_until_none_left",
                "wait_until_pending_at_end", "fractional_second_spec", "weekday_spec_started_that_day",
                "successor_probe_weekday_spec", "successor_probe_weekday_started_after_time", "poke_just_before_instant",
                "function_with_other_trigger", "function_poked_just_before_instant"]
SHRINK_LISTS = [["ops"], ["spec", "funcs"], ["spec", "funcs", "*", "specs"], ["spec", "waiters"],
                ["spec", "waiters", "*", "specs"], ["spec", "waiters", "*", "others"], ["spec", "weekday_probe"]]
OTHER_KINDS = ["state", "event", "mqtt", "webhook"]
# an instant given by an absolute specification (date/time of day, crontab) is denoted to the microsecond - times can
# be written with fractional seconds - and the computed trigger time / trigger_time has to be that very instant
LABEL_TOL = 5e-7

DST_EPOCHS = {
    # local evening before a change, UTC (start a few hours before the transition)
    "US/Pacific": ["2024-03-10T03:30:00.250000", "2024-11-03T04:10:00.500000"],
    "Europe/Berlin": ["2024-03-30T21:45:00.250000", "2024-10-26T21:20:00.125000"],
    "Australia/Sydney": ["2024-04-06T10:30:00.250000", "2024-10-05T11:05:00.500000"],
}
PLAIN_EPOCHS = ["2024-05-14T17:00:00.250000", "2024-02-28T22:15:30.250000", "2024-12-31T20:59:58.500000",
                "2025-01-15T03:30:00.000000", "2024-07-04T12:00:00.125000"]


# decimal fractions of a second ('Seconds are optional, and can include a decimal (fractional) portion'): digits after
# the point, 1 to 6 of them
FRACTIONS = ["1", "2", "3", "5", "6", "7", "9", "07", "25", "35", "75", "001", "015", "123", "0625", "123457", "999999"]


def _frac_sec(rng: random.Random, p: float, whole_choices=(0, 1, 5, 15, 23, 30, 44, 58, 59)):
    """With probability ``p`` a second with a decimal fraction (h:m:s.f), else None.  The value is the float nearest
    to the decimal, so it prints as that decimal and denotes exactly that many microseconds."""
    if rng.random() >= p:
        return None
    return float(f"{rng.choice(whole_choices)}.{rng.choice(FRACTIONS)}")


def _hms(rng, sec=False):
    out = {"k": "hms", "h": rng.randint(0, 23), "m": rng.choice([0, 5, 10, 15, 30, 45, 59]),
           "s": rng.choice([0, 0, 30]) if sec else 0}
    if sec:
        frac = _frac_sec(rng, 0.25)
        if frac is not None:
            out["s"] = frac
    return out


def _gen_spec(rng: random.Random, speed: str, local0: dt.datetime) -> dict:
    none = {"k": "none"}
    if speed == "fast":  # window of minutes
        roll = rng.random()
        if roll < 0.3:
            return {"type": "once", "at": {"date": {"k": "now"}, "time": none, "off": rng.choice([0.5, 7, 45.25, 120])}}
        if roll < 0.8:
            spec = {"type": "period", "start": {"date": {"k": "now"}, "time": none, "off": rng.choice([0, 0, 3, 10.5])},
                    "iv": rng.choice([5, 7.5, 20, 45, 90])}
            if rng.random() < 0.3:
                spec["end"] = {"date": {"k": "now"}, "time": none, "off": spec["start"]["off"] + spec["iv"] * rng.randint(1, 5)}
            return spec
        return {"type": "cron", "expr": rng.choice(["* * * * *", "*/2 * * * *"])}
    if speed == "medium":  # window of hours
        roll = rng.random()
        if roll < 0.35:
            return {"type": "cron", "expr": rng.choice(["*/5 * * * *", "*/15 * * * *", "7,22,37,52 * * * *", "0-59/20 * * * *",
                                                        "10-20/5 * * * *"])}
        if roll < 0.75:
            spec = {"type": "period", "start": {"date": {"k": "now"}, "time": none, "off": rng.choice([0, 60, 90.5])},
                    "iv": rng.choice([300, 600, 900, 1800])}
            if rng.random() < 0.3:
                spec["end"] = {"date": {"k": "now"}, "time": none, "off": spec["start"]["off"] + spec["iv"] * rng.randint(1, 6)}
            return spec
        target = local0 + dt.timedelta(minutes=rng.randint(3, 170))
        sec = rng.choice([0, 0, 30])
        frac = _frac_sec(rng, 0.3)
        return {"type": "once", "at": {"date": {"k": "none"}, "time": {"k": "hms", "h": target.hour, "m": target.minute,
                                                                         "s": sec if frac is None else frac}, "off": 0}}
    # slow: window of days
    roll = rng.random()
    if roll < 0.25:
        at = {"date": {"k": "none"}, "time": _hms(rng, True), "off": rng.choice([0, 0, 600, -600])}
        if rng.random() < 0.15:
            at["time"] = {"k": rng.choice(["noon", "midnight"])}
        if rng.random() < 0.1:
            at["time"] = {"k": rng.choice(["sunrise", "sunset"])}
            at["off"] = rng.choice([0, 1200, -1800])
        return {"type": "once", "at": at}
    if roll < 0.35:
        target = local0 + dt.timedelta(hours=rng.randint(2, 60))
        kind = rng.choice(["full", "md", "dow"])
        if kind == "full":
            date = {"k": "full", "y": target.year, "m": target.month, "d": target.day}
        elif kind == "md":
            date = {"k": "md", "m": target.month, "d": target.day}
        else:
            date = {"k": "dow", "dow": target.isoweekday() % 7}
        frac = _frac_sec(rng, 0.25)
        return {"type": "once", "at": {"date": date, "time": {"k": "hms", "h": target.hour, "m": target.minute,
                                                               "s": 0 if frac is None else frac}, "off": 0}}
    if roll < 0.65:
        return {"type": "cron", "expr": rng.choice([
            f"{rng.choice([0, 15, 30])} {rng.randint(0, 23)} * * *", "0 */6 * * *", "30 1-4 * * *", "0 2,3 * * *",
            f"0 {rng.randint(0, 23)} * * {rng.randint(0, 6)}", "15 6 1,15 * *", f"0 12 {local0.day} * 1-5",
            "45 23 * * 0,6", "0 0 * * *", "59 23 * * *"])}
    if roll < 0.8:
        # fixed-date start in the recent past or near future
        start = (local0 + dt.timedelta(hours=rng.randint(-30, 20))).replace(minute=rng.choice([0, 30]), second=0, microsecond=0)
        spec = {"type": "period", "start": {"date": {"k": "full", "y": start.year, "m": start.month, "d": start.day},
                                            "time": {"k": "hms", "h": start.hour, "m": start.minute, "s": 0}, "off": 0},
                "iv": rng.choice([3600, 7200, 21600, 86400, 5400])}
        if rng.random() < 0.25:
            end = start + dt.timedelta(seconds=spec["iv"] * rng.randint(2, 30))
            spec["end"] = {"date": {"k": "full", "y": end.year, "m": end.month, "d": end.day},
                           "time": {"k": "hms", "h": end.hour, "m": end.minute, "s": 0}, "off": 0}
        frac = _frac_sec(rng, 0.2)
        if frac is not None:
            # (the intervals are whole minutes: the last instant, the end, has the same second)
            spec["start"]["time"]["s"] = frac
            if spec.get("end") is not None:
                spec["end"]["time"]["s"] = frac
        return spec
    if roll < 0.9:
        # time-only start, daily re-anchoring, self-consistent: start < interval, interval divides 24 h
        iv = rng.choice([3600, 7200, 10800, 14400, 21600, 43200])
        smin = rng.choice([0, 10, 30, 45])
        frac = _frac_sec(rng, 0.15)
        return {"type": "period", "start": {"date": {"k": "none"}, "time": {"k": "hms", "h": 0, "m": smin,
                                                                             "s": 0 if frac is None else frac}, "off": 0},
                "iv": iv}
    # time-only start and end (daily window), possibly wrapping midnight
    h0 = rng.randint(0, 23)
    span_steps = rng.randint(1, 6)
    iv = rng.choice([1800, 3600, 5400])
    end = (dt.datetime(2000, 1, 1, h0, 0) + dt.timedelta(seconds=iv * span_steps))
    return {"type": "period", "start": {"date": {"k": "none"}, "time": {"k": "hms", "h": h0, "m": 0, "s": 0}, "off": 0},
            "iv": iv, "end": {"date": {"k": "none"}, "time": {"k": "hms", "h": end.hour, "m": end.minute, "s": 0}, "off": 0}}


def gen(rng: random.Random, tier: str) -> dict:
    cfg = gen_cfg(rng)
    speed = rng.choice(["fast", "medium", "slow", "slow"])
    dst = speed == "slow" and rng.random() < 0.45
    if dst:
        cfg["tz"] = rng.choice(sorted(DST_EPOCHS))
        cfg["epoch_utc"] = rng.choice(DST_EPOCHS[cfg["tz"]])
    else:
        cfg["epoch_utc"] = rng.choice(PLAIN_EPOCHS)
    # the wall clock may run slower than the monotonic clock (early wake-ups exercise the re-wait loops); a faster
    # wall clock would make every monotonic sleep overshoot by drift x duration, which no implementation can avoid
    cfg["drift"] = rng.choice([0.0, 0.0, -1e-4, -1e-3])
    cfg["exec_latency_ms"] = [0.0, 0.0]  # keeps the definition instant ('now') within a few loop passes
    zone = C.Zone(cfg["tz"])
    local0 = zone.to_local(dt.datetime.fromisoformat(cfg["epoch_utc"]).replace(tzinfo=C.UTC))
    window = {"fast": rng.choice([120, 300]), "medium": rng.choice([3600, 9000]),
              "slow": rng.choice([86400, 2 * 86400, 3 * 86400])}[speed]
    funcs = []
    for fi in range(rng.choice([1, 1, 2, 3])):
        specs = [_gen_spec(rng, speed, local0) for _ in range(rng.choice([1, 1, 2, 3]))]
        func = {"name": f"t{fi}", "specs": specs, "startup": rng.random() < 0.25, "shutdown": rng.random() < 0.25,
                "kwargs": {"fn": fi}}
        funcs.append(func)
    if cfg["tz"] != "US/Pacific":
        # sunrise/sunset belong to the harness location (San Diego): only meaningful in its own time zone
        for func in funcs:
            for sp in func["specs"]:
                if sp["type"] == "once" and sp["at"]["time"]["k"] in ("sunrise", "sunset"):
                    sp["at"]["time"] = {"k": "noon"}
    ops = []
    if rng.random() < 0.25:
        ops.append({"at": round(rng.uniform(0.1, 0.8) * window, 2), "kind": "reload"})
    if rng.random() < 0.2:
        ops.append({"at": round(rng.uniform(0.1, 0.9) * window, 2), "kind": "stall",
                    "s": rng.choice([0.05, 2.0, 30.0]) if speed != "fast" else rng.choice([0.05, 2.0])})
    # (drawn last: the rest of the scenario is the same with and without waiters)
    waiters = _gen_waiters(rng, speed, local0, window, ops, cfg)
    _gen_func_others(rng, funcs, window, ops, cfg)
    # steer = True keeps the run clear of constructs on which the unchanged code is known to deviate (the direct
    # successor probes of once(2/29 ..), of sub-second period() intervals and of once(<weekday> ..)), so that half of
    # the runs stay clean
    steer = rng.random() < 0.5
    # direct successor probes of once(<weekday> hh:mm): how the trigger's first evaluation lies to that weekday
    weekday_probe = [rng.choice(["that_day_before_time", "that_day_after_time", "that_day_after_time", "other_day"])
                     for _ in range(2)]
    ops.sort(key=lambda o: o["at"])
    return {"cfg": cfg, "spec": {"funcs": funcs, "window": window, "speed": speed, "dst": dst, "waiters": waiters,
                                 "steer": steer, "weekday_probe": weekday_probe},
            "ops": ops}


def _gen_wait_spec(rng: random.Random, speed: str, local0: dt.datetime) -> dict:
    """A time specification for task.wait_until: the same grammar; a now-relative period mostly starts after 'now'
    (period(now, ..) denotes 'now' itself, so the call would return at once)."""
    sp = _gen_spec(rng, speed, local0)
    if sp["type"] == "period" and sp["start"]["date"]["k"] == "now" and not sp["start"]["off"] and rng.random() < 0.7:
        shift = rng.choice([3, 10.5, 0.5 * sp["iv"]])
        sp["start"]["off"] = shift
        if sp.get("end") is not None:
            sp["end"]["off"] += shift
    return sp


def _gen_waiters(rng: random.Random, speed: str, local0: dt.datetime, window: float, ops: list, cfg: dict) -> list:
    if rng.random() >= 0.4:
        return []
    waiters = []
    for wi in range(rng.choice([1, 1, 2])):
        others = sorted(rng.sample(OTHER_KINDS, rng.choice([0, 1, 1, 2, 2, 3])))
        waiters.append({
            "name": f"wt{wi}",
            "specs": [_gen_wait_spec(rng, speed, local0) for _ in range(rng.choice([1, 1, 2]))],
            "others": others,
            "hold": rng.choice([None, None, 20.0]) if "state" in others else None,
            "rounds": rng.choice([2, 3, 5]),
            "delay": rng.choice([0.0, 0.0, 0.25, 3.5]),    # before the first call
            "gap": rng.choice([0.0, 0.25, 1.5, 7.75]),     # between a return and the next call
        })
    if cfg["tz"] != "US/Pacific":
        # sunrise/sunset belong to the harness location (see gen)
        for wt in waiters:
            for sp in wt["specs"]:
                if sp["type"] == "once" and sp["at"]["time"]["k"] in ("sunrise", "sunset"):
                    sp["at"]["time"] = {"k": "noon"}
    at = 0.0
    for _ in range(rng.randint(0, 8)):
        wt = rng.choice(waiters)
        if not wt["others"]:
            continue
        # spread over the window, sometimes in quick succession
        at = at + rng.choice([0.25, 0.5, 2.0]) if (at and rng.random() < 0.3) else rng.uniform(0.01, 0.95) * window
        if at >= window:
            continue
        via = rng.choice(wt["others"])
        op = {"at": round(at, 2), "kind": "poke", "w": wt["name"], "via": via, "go": rng.random() < 0.15}
        if via == "state" and rng.random() < 0.3:
            # becomes true and, a moment later, false again: with state_hold a hold that is started and cancelled
            op["go"] = True
            op["blip"] = rng.choice([0.25, 0.25, 1.0])
        elif not op["go"] and rng.random() < 0.4:
            op["aim"] = rng.choice(AIM_PASSES)
        ops.append(op)
    cfg["initial_states"] = {f"pyscript.c06{wt['name']}": ["idle", {}] for wt in waiters}
    return waiters


# a poke can be aimed: the driver waits for the next instant the target's specifications denote and delivers the
# poke this many loop passes (of the run's per-pass cost) before it, so that the trigger is busy with the
# notification while the instant passes
AIM_PASSES = [0, 1, 1, 2, 2, 3, 4, 6]


def _gen_func_others(rng: random.Random, funcs: list, window: float, ops: list, cfg: dict) -> None:
    """Some of the @time_trigger functions get one more trigger decorator (state / event / MQTT / webhook) whose
    condition is never met, and 0-6 pokes of it at seeded instants, half of them aimed just before a denoted instant:
    the function still has to run once per instant, whatever notifications its trigger handles in between."""
    if rng.random() >= 0.3:
        return
    chosen = [func for func in funcs if func["specs"] and rng.random() < 0.7]
    for func in chosen:
        func["other"] = rng.choice(OTHER_KINDS)
    if not chosen:
        return
    for _ in range(rng.randint(0, 6)):
        func = rng.choice(chosen)
        at = rng.uniform(0.01, 0.95) * window
        op = {"at": round(at, 2), "kind": "poke", "w": func["name"], "via": func["other"], "go": False}
        if rng.random() < 0.5:
            op["aim"] = rng.choice(AIM_PASSES)
        ops.append(op)
    states = dict(cfg.get("initial_states") or {})
    states.update({f"pyscript.c06{func['name']}": ["idle", {}] for func in chosen if func["other"] == "state"})
    cfg["initial_states"] = states


# ------------------------------------------------------------------ rendering
def render(scn: dict, gen_no: int = 0) -> dict:
    lines = [f"# generation {gen_no}"]
    for func in scn["spec"]["funcs"]:
        if not func["specs"] and not func["startup"] and not func["shutdown"]:
            continue
        args = [repr(C.spec_src(s)) for s in func["specs"]]
        if func["startup"]:
            args.insert(0, "'startup'")
        if func["shutdown"]:
            args.append("'shutdown'")
        lines.append(f"@time_trigger({', '.join(args)}, kwargs={func['kwargs']!r})")
        if func.get("other"):
            lines.append(_other_decorator_src(func))
        lines.append(f"def {func['name']}(**kw):")
        lines.append(f"    sim.mark({func['name']!r}, {gen_no}, **kw)")
        lines.append("")
    for wt in scn["spec"].get("waiters") or []:
        name = wt["name"]
        if not wt["specs"]:
            continue
        lines.append("@time_trigger('startup')")
        lines.append(f"def {name}():")
        if wt.get("delay"):
            lines.append(f"    task.sleep({wt['delay']})")
        lines.append(f"    for rnd in range({wt['rounds']}):")
        lines.append(f"        sim.mark({name!r}, {gen_no}, rnd, 'begin')")
        lines.append(f"        res = {_wait_call_src(wt)}")
        lines.append(f"        sim.mark({name!r}, {gen_no}, rnd, 'ret', **res)")
        lines.append("        if res['trigger_type'] == 'none':")
        lines.append("            break")
        if "state" in wt["others"]:
            lines.append("        if res['trigger_type'] == 'state':")
            lines.append(f"            pyscript.c06{name} = 'idle'")
        if wt.get("gap"):
            lines.append(f"        task.sleep({wt['gap']})")
        lines.append("")
    return {"pyscript/c06.py": "\n".join(lines) + "\n"}


def _other_decorator_src(func: dict) -> str:
    """One more trigger decorator on a @time_trigger function; its condition is never met by the pokes."""
    name, via = func["name"], func["other"]
    if via == "state":
        expr = f"pyscript.c06{name} == 'go'"
        return f"@state_trigger({expr!r})"
    if via == "event":
        return f"@event_trigger({'c06_ev_' + name!r}, 'n == 1')"
    if via == "mqtt":
        flt = "payload == 'go'"
        return f"@mqtt_trigger({'c06/' + name!r}, {flt!r})"
    if via == "webhook":
        flt = "payload['n'] == 1"
        return f"@webhook_trigger({'c06hook' + name!r}, {flt!r})"
    raise ValueError(func)


def _wait_call_src(wt: dict) -> str:
    name = wt["name"]
    specs = [C.spec_src(sp) for sp in wt["specs"]]
    kw = [f"time_trigger={(specs[0] if len(specs) == 1 else specs)!r}"]
    if "state" in wt["others"]:
        expr = f"pyscript.c06{name} == 'go'"
        kw.append(f"state_trigger={expr!r}")
        if wt.get("hold"):
            kw.append(f"state_hold={wt['hold']}")
    if "event" in wt["others"]:
        kw.append(f"event_trigger={['c06_ev_' + name, 'n == 1']!r}")
    if "mqtt" in wt["others"]:
        flt = "payload == 'go'"
        kw.append(f"mqtt_trigger={['c06/' + name, flt]!r}")
    if "webhook" in wt["others"]:
        flt = "payload['n'] == 1"
        kw.append(f"webhook_trigger={['c06hook' + name, flt]!r}")
    return f"task.wait_until({', '.join(kw)})"


def normalize(scn: dict) -> dict | None:
    funcs = [f for f in scn["spec"]["funcs"] if f["specs"] or f["startup"] or f["shutdown"]]
    waiters = [wt for wt in scn["spec"].get("waiters") or [] if wt["specs"]]
    if not funcs and not waiters:
        return None
    scn["spec"]["funcs"] = funcs
    if "waiters" in scn["spec"]:
        scn["spec"]["waiters"] = waiters
    by_name = {wt["name"]: wt["others"] for wt in waiters}
    by_name.update({func["name"]: [func["other"]] for func in funcs if func.get("other") and func["specs"]})
    for wt in waiters:
        if "state" not in wt["others"]:
            wt["hold"] = None
    # a poke needs its waiter / function and the condition it addresses
    scn["ops"] = [op for op in scn["ops"] if op["kind"] != "poke"
                  or (op["w"] in by_name and op["via"] in by_name[op["w"]])]
    return scn


def simplify(scn: dict):
    for fi, func in enumerate(scn["spec"]["funcs"]):
        for key in ("startup", "shutdown"):
            if func[key]:
                cand = copy.deepcopy(scn)
                cand["spec"]["funcs"][fi][key] = False
                yield cand
    for wi, wt in enumerate(scn["spec"].get("waiters") or []):
        for key, val in (("hold", None), ("delay", 0.0), ("gap", 0.0), ("rounds", 1), ("rounds", 2)):
            if wt.get(key) != val and not (key == "rounds" and wt["rounds"] <= val):
                cand = copy.deepcopy(scn)
                cand["spec"]["waiters"][wi][key] = val
                yield cand
    for oi, op in enumerate(scn["ops"]):
        if op["kind"] == "poke" and (op.get("go") or op.get("blip")):
            cand = copy.deepcopy(scn)
            cand["ops"][oi]["go"] = False
            cand["ops"][oi].pop("blip", None)
            yield cand
        if op["kind"] == "poke" and "aim" in op:
            cand = copy.deepcopy(scn)
            del cand["ops"][oi]["aim"]
            yield cand
    for fi, func in enumerate(scn["spec"]["funcs"]):
        if func.get("other") and not any(op["kind"] == "poke" and op["w"] == func["name"] for op in scn["ops"]):
            cand = copy.deepcopy(scn)
            del cand["spec"]["funcs"][fi]["other"]
            yield cand
    if not scn["spec"].get("steer", True):
        cand = copy.deepcopy(scn)
        cand["spec"]["steer"] = True
        yield cand
    if scn["spec"]["window"] > 300:
        for div in (4, 2):
            cand = copy.deepcopy(scn)
            cand["spec"]["window"] = max(120, scn["spec"]["window"] // div)
            cand["ops"] = [op for op in cand["ops"] if op["at"] < cand["spec"]["window"]]
            yield cand
    for key, val in (("timer_late_ms", 0.0), ("drift", 0.0), ("cost_us", 50), ("exec_latency_ms", [0.0, 0.0])):
        if scn["cfg"].get(key) != val:
            cand = copy.deepcopy(scn)
            cand["cfg"][key] = val
            yield cand


def warmup() -> None:
    scn = gen(random.Random(5), "quick")
    scn["spec"]["window"] = 60
    scn["ops"] = []
    run(scn)


# ------------------------------------------------------------------ run
def run(scn: dict) -> dict:
    spec = scn["spec"]
    w = World(scn["cfg"], render(scn, 0))
    info: dict = {"reloads": [], "stalls": [], "pokes": []}

    async def driver(w: World):
        info["def0"] = w.loop.vt  # triggers start right after homeassistant_started (fired just before the driver)
        await w.passes(5)
        t_start = w.loop.vt
        info["t_start"] = t_start
        gen_no = 0
        for op in scn["ops"]:
            target = t_start + op["at"]
            if target > w.loop.vt:
                await w.sleep(target - w.loop.vt)
            if op["kind"] == "reload":
                gen_no += 1
                for rel, text in render(scn, gen_no).items():
                    w.write_file(rel, text)
                w.probe("reload_mid_run")
                t_before = w.loop.vt
                await w.reload()
                info["reloads"].append({"vt0": t_before, "vt1": w.loop.vt, "gen": gen_no})
            elif op["kind"] == "stall":
                info["stalls"].append({"vt0": w.loop.vt, "vt1": w.loop.vt + op["s"]})
                w.loop.stall(op["s"])
                w.fault("stall")
            elif op["kind"] == "poke":
                aimed = await _aim(w, scn, op, info) if "aim" in op else None
                await _poke(w, op, info, aimed)
        end = t_start + spec["window"]
        if end > w.loop.vt:
            await w.sleep(end - w.loop.vt)
        await w.drain()
        info["end"] = w.loop.vt
        info["successor"] = await successor_probes(w, scn)

    w.run(driver)
    violations, nontrivial, extra = oracle(w, scn, info)
    return base_result(w, violations, nontrivial, extra)


class _Quiet:
    """Stands in for the world where the calendar is consulted by the driver (no reach probes)."""

    @staticmethod
    def probe(*_a, **_k) -> None:
        return None


async def _aim(w: World, scn: dict, op: dict, info: dict) -> float | None:
    """Wait until ``op['aim']`` loop passes before the next instant the specifications of the poke's target denote.

    Returns the virtual time of that instant, or None (the poke is delivered at once) if there is none within the
    look-ahead or the target is not waiting at the moment."""
    spec, clock, name = scn["spec"], w.clock, op["w"]
    zone, sun = C.Zone(w.cfg["tz"]), _sun_factory(w, w.cfg["tz"])
    now_vt = w.loop.vt
    look = min(max(90.0, 0.15 * spec["window"]), info["t_start"] + spec["window"] - now_vt)
    func = next((f for f in spec["funcs"] if f["name"] == name), None)
    if func is not None:
        specs = func["specs"]
        vt0 = info["reloads"][-1]["vt1"] if info["reloads"] else info["def0"]
        startup_local = clock.local_at(vt0)
    else:
        wt = next(wt for wt in spec.get("waiters") or [] if wt["name"] == name)
        specs = wt["specs"]
        marks = [m for m in w.marks if m["args"] and m["args"][0] == name]
        if not marks or marks[-1]["args"][3] != "begin":
            return None
        vt0, startup_local = marks[-1]["vt"], marks[-1]["wall"]
    if look <= 0 or not specs:
        return None
    # (the driver itself resumes one pass after its timer)
    lead = (op["aim"] + 1) * w.loop.cost + 2e-6
    expected = _denoted(_Quiet, clock, zone, sun, specs, startup_local, clock.local_at(now_vt), clock.local_at(now_vt + look),
                        vt0, now_vt + look, 0.0)
    ahead = sorted(e[0] for e in expected if e[0] != "dontcare_all" and now_vt + lead + 1e-4 < e[0] <= now_vt + look)
    if not ahead:
        return None
    await w.sleep(ahead[0] - lead - w.loop.vt)
    w.probe("poke_just_before_instant")
    return ahead[0]


async def _poke(w: World, op: dict, info: dict, aimed: float | None = None) -> None:
    """Poke one of the other conditions of a waiter's task.wait_until (qualifying - ``go`` - or not), or the never
    qualifying other trigger of a @time_trigger function."""
    name, via, go = op["w"], op["via"], bool(op.get("go"))
    seq = len(info["pokes"]) + 1
    rec = {"vt": w.loop.vt, "w": name, "via": via, "go": go, "blip": op.get("blip")}
    if aimed is not None:
        rec["aimed"] = aimed
    info["pokes"].append(rec)
    if via == "state":
        w.set_state(f"pyscript.c06{name}", "go" if go else f"n{seq}")
        if go and op.get("blip"):
            await w.sleep(op["blip"])
            w.set_state(f"pyscript.c06{name}", f"b{seq}")
            rec["vt_back"] = w.loop.vt
    elif via == "event":
        w.fire(f"c06_ev_{name}", {"n": 1 if go else 0, "seq": seq})
    elif via == "mqtt":
        w.mqtt_publish(f"c06/{name}", "go" if go else f"x{seq}")
    elif via == "webhook":
        await apply_common(w, {"kind": "webhook", "id": f"c06hook{name}", "payload": {"n": 1 if go else 0, "seq": seq}})
    else:
        raise ValueError(op)


async def successor_probes(w: World, scn: dict) -> list:
    """Differential probes of the pure successor function TrigTime.timer_trigger_next, riding on the scenario.

    (Not a simulation result: the function is called directly, at 'now' values placed exactly on denoted
    instants and 1 us either side, where the running triggers rarely land.)"""
    from custom_components.pyscript.trigger import TrigTime

    out = []
    sun = _sun_factory(w, w.cfg["tz"])
    rng = random.Random(scn["cfg"]["env_seed"])
    startup = w.clock.local_naive().replace(microsecond=250000) - dt.timedelta(days=1)
    horizon = startup + dt.timedelta(seconds=min(scn["spec"]["window"] * 2 + 3600, 5 * 86400))
    for func in scn["spec"]["funcs"]:
        specs = [sp for sp in func["specs"] if not (
            (sp["type"] == "once" and sp["at"]["date"]["k"] in ("dow", "md"))
            or (sp["type"] == "once" and sp["at"]["time"]["k"] in ("sunrise", "sunset"))
            or (sp["type"] == "period" and sp["start"]["date"]["k"] == "none" and sp.get("end") is not None))]
        if not specs or len(specs) != len(func["specs"]):
            continue
        denoted = set()
        for sp in specs:
            if sp["type"] == "once":
                denoted.update(C.once_instants(sp["at"], startup, startup, horizon, sun))
            elif sp["type"] == "cron":
                denoted.update(C.cron_instants(sp["expr"], startup, horizon))
            else:
                denoted.update(C.period_instants(sp, startup, startup, horizon, sun))
        denoted = sorted(denoted)
        if len(denoted) < 2:
            continue
        nows = []
        for inst in rng.sample(denoted[:-1], min(5, len(denoted) - 1)):
            nows += [inst - dt.timedelta(microseconds=1), inst, inst + dt.timedelta(microseconds=1)]
        for _ in range(3):
            nows.append(startup + dt.timedelta(seconds=rng.uniform(1, (denoted[-1] - startup).total_seconds() - 1)))
        # around a daylight-saving change: 'now' shortly before it, candidates of different specifications after it
        # (the minimum over the specifications must be taken on the local labels)
        zone_ = C.Zone(w.cfg["tz"])
        hour = startup.replace(minute=0, second=0, microsecond=0)
        while hour < horizon:
            if zone_.offset_changes_between(hour, hour + dt.timedelta(hours=1)):
                for mins in (-180, -120, -90, -60, -30, -1, 61, 90):
                    nows.append(hour + dt.timedelta(minutes=mins, seconds=7))
                w.probe("successor_probe_at_dst_change")
            hour += dt.timedelta(hours=1)
        srcs = [C.spec_src(sp) for sp in specs]

        def exists(local):  # a label inside the hour skipped by a spring-forward change is no instant at all
            return zone_.to_local(zone_.to_utc(local)) == local

        for now in nows:
            if now <= startup or now >= denoted[-1] or not exists(now):
                continue
            want = next(d for d in denoted if d > now)
            got, _adj = await TrigTime.timer_trigger_next(list(srcs), now, startup)
            w.probe("successor_probe")
            # (compared as absolute instants: a label inside a skipped hour names the instant one hour later)
            if got is None or abs((zone_.to_utc(got) - zone_.to_utc(want)).total_seconds()) > LABEL_TOL:
                out.append({"specs": srcs, "now": str(now), "startup": str(startup), "got": str(got), "want": str(want),
                            "on_instant": now in denoted})
    # ---- once(MM/DD hh:mm:ss) without a year = once per year: the next occurrence can be up to a year (and a leap
    # day) away, far outside any simulated window, so the successor function is probed directly at 'now' values
    # around the year's end, a leap day and the denoted date itself
    for _ in range(2):
        month, day = rng.choice([(1, 1), (1, 15), (2, 28), (3, 1), (7, 4), (12, 31), (startup.month, startup.day)])
        if (month, day) == (2, 29):
            day = 28  # once(2/29) in a year without a leap day is outside what the documentation describes
        hms = (rng.randrange(24), rng.randrange(60), rng.choice([0, 0, 30]))
        at = {"date": {"k": "md", "m": month, "d": day}, "time": {"k": "hms", "h": hms[0], "m": hms[1], "s": hms[2]}, "off": 0}
        src = C.spec_src({"type": "once", "at": at})
        year = rng.choice([2023, 2024, 2024, 2027, 2028])
        nows = [dt.datetime(year, 2, 28, 23, 59, 59), dt.datetime(year, 3, 1, 0, 0, 0), dt.datetime(year, 12, 31, 23, 59, 59),
                dt.datetime(year, 1, 1, 0, 0, 0), dt.datetime(year, month, day, *hms),
                dt.datetime(year, month, day, *hms) - dt.timedelta(microseconds=1),
                dt.datetime(year, 1, 1) + dt.timedelta(seconds=rng.uniform(0, 365 * 86400))]
        if year % 4 == 0:
            nows.append(dt.datetime(year, 2, 29, 9, 41, 0))
        for now in nows:
            st = now - dt.timedelta(days=1)
            denoted = C.once_instants(at, st, now, now + dt.timedelta(days=800), sun)
            if not denoted:
                continue
            want = denoted[0]
            got, _adj = await TrigTime.timer_trigger_next([src], now, st)
            w.probe("successor_probe_yearly")
            if got is None or abs((got - want).total_seconds()) > LABEL_TOL:
                out.append({"specs": [src], "now": str(now), "startup": str(st), "got": str(got), "want": str(want),
                            "on_instant": False, "yearly": True})
    if scn["spec"].get("steer", True):
        return out  # (half of the runs stay clear of the constructs below)
    # ---- once(2/29 hh:mm) without a year: the date exists in leap years only.  Whatever the specification is taken
    # to denote in the other years (nothing, 2/28 or 3/1 - the documentation does not say), the next real 29th of
    # February is a denoted instant, so the successor is that one or one of those two readings - never an error, and
    # never 'none'
    hms = (rng.randrange(24), rng.randrange(60), rng.choice([0, 0, 30]))
    at = {"date": {"k": "md", "m": 2, "d": 29}, "time": {"k": "hms", "h": hms[0], "m": hms[1], "s": hms[2]}, "off": 0}
    src = C.spec_src({"type": "once", "at": at})
    year = rng.choice([2023, 2024, 2024, 2025, 2027, 2028])
    nows = [dt.datetime(year, 2, 28, 23, 59, 59), dt.datetime(year, 3, 1, 0, 0, 0), dt.datetime(year, 12, 31, 23, 59, 59),
            dt.datetime(year, 1, 1, 0, 0, 0), dt.datetime(year, 1, 1) + dt.timedelta(seconds=rng.uniform(0, 365 * 86400))]
    if year % 4 == 0:
        nows.append(dt.datetime(year, 2, 29, *hms) - dt.timedelta(minutes=rng.choice([1, 90])))
    for now in nows:
        st = now - dt.timedelta(days=1)
        denoted = C.once_instants(at, st, now, now + dt.timedelta(days=1600), sun)
        want = denoted[0]
        accept = {want}
        for alt in ((2, 28), (3, 1)):
            cands = [dt.datetime(yr, alt[0], alt[1], *hms) for yr in range(now.year, want.year) if yr % 4]
            cands = [c for c in cands if now < c < want]
            if cands:
                accept.add(cands[0])
        try:
            got, _adj = await TrigTime.timer_trigger_next([src], now, st)
        except Exception as exc:  # pylint: disable=broad-except
            got = f"raises {type(exc).__name__}({exc})"
        w.probe("successor_probe_leap_day_spec")
        if got not in accept:
            how = "raises" if isinstance(got, str) else ("none" if got is None else "wrong")
            out.append({"specs": [src], "now": str(now), "startup": str(st), "got": str(got), "want": str(want),
                        "on_instant": False, "case": "leap_day_spec_" + how})
    # ---- period(<full date and time>, <interval below or around a second>): 'now' exactly on, and 1 us either side
    # of, denoted instants (a trigger that wakes up a hair early continues from exactly the instant it has just
    # fired); the instants are start + k * interval, computed here in whole microseconds
    iv_us = rng.choice([100000, 100000, 250000, 300000, 700000, 1500000])
    start = startup.replace(microsecond=0)
    zone_ = C.Zone(w.cfg["tz"])
    if not zone_.offset_changes_between(start - dt.timedelta(hours=2), start + dt.timedelta(hours=4)):
        spec = {"type": "period", "iv": iv_us / 1e6,
                "start": {"date": {"k": "full", "y": start.year, "m": start.month, "d": start.day},
                          "time": {"k": "hms", "h": start.hour, "m": start.minute, "s": start.second}, "off": 0}}
        src = C.spec_src(spec)
        for k in rng.sample(range(1, 3000), 8):
            inst = start + dt.timedelta(microseconds=iv_us * k)
            for now in (inst - dt.timedelta(microseconds=1), inst, inst + dt.timedelta(microseconds=1)):
                want = inst if now < inst else inst + dt.timedelta(microseconds=iv_us)
                try:
                    got, _adj = await TrigTime.timer_trigger_next([src], now, startup)
                except Exception as exc:  # pylint: disable=broad-except
                    got = f"raises {type(exc).__name__}({exc})"
                w.probe("successor_probe_sub_second_period")
                if not isinstance(got, dt.datetime) or abs((got - want).total_seconds()) > 1e-5:
                    out.append({"specs": [src], "now": str(now), "startup": str(startup), "got": str(got), "want": str(want),
                                "on_instant": now == inst, "case": "sub_second_period"})
    if scn["spec"].get("weekday_probe"):
        # (a stream of its own: the draws of the blocks above stay what they were)
        out += await _weekday_probes(w, scn, random.Random(f"{scn['cfg']['env_seed']}/weekday"), startup, sun)
    return out


async def _weekday_probes(w: World, scn: dict, rng: random.Random, startup: dt.datetime, sun) -> list:
    """once(<weekday> hh:mm[:ss[.f]]) = 'once on that day of the week'.  Whether it repeats every week is open (see
    ASSUMPTIONS), but the first occurrence after the trigger's first evaluation is denoted under every reading; so for
    every 'now' from the first evaluation up to that occurrence the successor is that occurrence - today, if the
    trigger is started on that weekday before the time, a week later if it is started on that weekday after the time
    (far outside every simulated window: the successor function is asked directly)."""
    from custom_components.pyscript.trigger import TrigTime

    out = []
    zone_ = C.Zone(w.cfg["tz"])
    us = dt.timedelta(microseconds=1)
    for rel in scn["spec"]["weekday_probe"]:
        dow = rng.randrange(7)
        sec = rng.choice([0, 0, 30, 15.5, 44.25])
        at = {"date": {"k": "dow", "dow": dow}, "off": 0,
              "time": {"k": "hms", "h": rng.randint(1, 22), "m": rng.randrange(60), "s": sec}}
        if rng.random() < 0.2:
            at["time"] = {"k": rng.choice(["noon", "noon", "midnight"])}
        src = C.spec_src({"type": "once", "at": at})
        day = startup.date() + dt.timedelta(days=rng.randrange(0, 720))  # (a two-year window)
        if rel != "other_day":
            day += dt.timedelta(days=(dow - day.isoweekday()) % 7)
        elif day.isoweekday() % 7 == dow:
            day += dt.timedelta(days=rng.randint(1, 6))
        at_time = C._time_on_day(at["time"], day, sun)
        day0 = dt.datetime(day.year, day.month, day.day)
        if rel == "that_day_before_time" and at_time > day0:
            st = day0 + (at_time - day0) * rng.uniform(0.0, 0.98)
        elif rel == "that_day_before_time":
            continue  # (midnight: there is no earlier time that day)
        elif rel == "that_day_after_time":
            st = at_time + (day0 + dt.timedelta(days=1) - at_time) * rng.uniform(0.001, 0.999)
        else:
            st = day0 + dt.timedelta(seconds=rng.uniform(0, 86399))
        st = st.replace(microsecond=250000)
        first = C.once_instants(at, st, st, st + dt.timedelta(days=8), sun)[0]
        if zone_.offset_changes_between(st - dt.timedelta(days=1), first + dt.timedelta(days=1)):
            continue  # (the direct probes stay on ordinary days, see ASSUMPTIONS)
        nows = [st, st + us, first - us, first - dt.timedelta(seconds=1),
                st.replace(hour=23, minute=59, second=59, microsecond=999999), day0 + dt.timedelta(days=1)]
        nows += [st + (first - st) * rng.random() for _ in range(3)]
        for now in nows:
            if not st <= now < first:
                continue
            try:
                got, _adj = await TrigTime.timer_trigger_next([src], now, st)
            except Exception as exc:  # pylint: disable=broad-except
                got = f"raises {type(exc).__name__}({exc})"
            w.probe("successor_probe_weekday_spec")
            if rel == "that_day_after_time":
                w.probe("successor_probe_weekday_started_after_time")
            if got != first:
                how = "raises" if isinstance(got, str) else ("none" if got is None else "wrong")
                out.append({"specs": [src], "now": str(now), "startup": str(st), "got": str(got), "want": str(first),
                            "on_instant": False, "case": f"weekday_spec_started_{rel}_{how}"})
    return out


def _sun_factory(w: World, tzname: str):
    """sunrise/sunset of a day in local naive time, from astral with HA's test location (environment)."""
    import zoneinfo

    from astral import LocationInfo
    from astral.location import Location

    loc = Location(LocationInfo("sim", "sim", tzname, 32.87336, -117.22743))
    tz = zoneinfo.ZoneInfo(tzname)

    def sun(kind, day):
        try:
            val = loc.sunrise(day) if kind == "sunrise" else loc.sunset(day)
        except Exception:  # pylint: disable=broad-except
            return None
        return val.astimezone(tz).replace(tzinfo=None)

    return sun


def _denoted(w: World, clock, zone, sun, specs: list, startup_local, lo_local, hi_local, vt0: float, vt1: float,
             slack: float) -> list:
    """The instants the specifications denote for a trigger that was first evaluated at ``startup_local`` (virtual
    time ``vt0``) up to virtual time ``vt1``: a list of (vt, local label, kind, strict_label); the single entry
    ("dontcare_all", ..) says that the documentation does not settle this trigger at all."""
    expected = []  # (vt, label, kind, strict_label)
    for sp in specs:
        parts = [sp.get("at"), sp.get("start"), sp.get("end")]
        if any(part and part["time"]["k"] == "hms" and part["time"].get("s", 0) != int(part["time"].get("s", 0))
               for part in parts):
            w.probe("fractional_second_spec")
        if sp["type"] == "once":
            insts = C.once_instants(sp["at"], startup_local, lo_local, hi_local, sun)
            if sp["at"]["date"]["k"] == "dow":
                # 'once on that day of the week': whether it repeats every week is open, but the first occurrence after
                # the trigger's first evaluation is denoted under every reading - today, if the trigger starts on that
                # weekday before the time; a week away (outside every simulated window), if it starts after the time
                w.probe("weekly_or_yearly")
                if startup_local.isoweekday() % 7 == sp["at"]["date"]["dow"]:
                    w.probe("weekday_spec_started_that_day")
                insts = [inst for inst in C.once_instants(sp["at"], startup_local, startup_local, hi_local, sun)[:1]
                         if inst > lo_local]
            if sp["at"]["date"]["k"] == "md":
                w.probe("weekly_or_yearly")
            if sp["at"]["time"]["k"] in ("sunrise", "sunset"):
                w.probe("sunrise_or_sunset")
            for inst in insts:
                expected.append((clock.vt_of_utc(zone.to_utc(inst)), inst, "once:" + sp["at"]["date"]["k"],
                                 sp["at"]["date"]["k"] != "now"))
        elif sp["type"] == "cron":
            if any(ch in sp["expr"] for ch in "/-,"):
                w.probe("cron_step_or_range")
            for inst in C.cron_instants(sp["expr"], lo_local - dt.timedelta(hours=2), hi_local + dt.timedelta(hours=2)):
                vt = clock.vt_of_utc(zone.to_utc(inst))
                if vt0 < vt <= vt1 + 2 * slack:
                    expected.append((vt, inst, "cron", True))
        else:
            if sp.get("end") is not None:
                w.probe("period_with_end")
            anchor: list = []
            labels = C.period_instants(sp, startup_local, lo_local - dt.timedelta(hours=2),
                                       hi_local + dt.timedelta(hours=2), sun, anchor)
            fixed = sp["start"]["date"]["k"] in ("now", "full")
            for inst in labels:
                if fixed:
                    # equal spacing in absolute time from the specification's start
                    first = anchor[0]
                    vt = clock.vt_of_utc(zone.to_utc(first)) + (inst - first).total_seconds() / (1.0 + clock.drift)
                    crossed = zone.offset_changes_between(first, inst) or zone.irregular(inst)
                    strict = sp["start"]["date"]["k"] != "now" and not crossed
                else:
                    vt = clock.vt_of_utc(zone.to_utc(inst))
                    strict = True
                if vt0 - 1e-3 <= vt <= vt1 + 2 * slack and (inst > startup_local or (inst == startup_local)):
                    expected.append((vt, inst, "period", strict))
    return expected


def _judge_waiters(w: World, scn: dict, info: dict, viol, zone, clock, sun, slack: float, stalls: list,
                   poked_just_before) -> int:
    """task.wait_until(time_trigger=...) calls of the waiter functions: every call is a trigger of its own.

    'now' is the instant the call began (its 'begin' marker, known to a few loop passes); the call has to return
    with trigger_type "time" at the first denoted instant after that and carry it as trigger_time, whatever wakes
    it up in between without satisfying one of its other conditions.  Returns the number of time returns."""
    n_time = 0
    longest_stall = max((s["vt1"] - s["vt0"] for s in stalls), default=0.0)

    def in_stall(vt):
        return any(s["vt0"] - slack <= vt <= s["vt1"] + slack for s in stalls)

    for wt in scn["spec"].get("waiters") or []:
        if not wt["specs"]:
            continue
        name = wt["name"]
        marks = [m for m in w.marks if m["args"] and m["args"][0] == name]
        begins = {(m["args"][1], m["args"][2]): m for m in marks if m["args"][3] == "begin"}
        rets = {(m["args"][1], m["args"][2]): m for m in marks if m["args"][3] == "ret"}
        if len(begins) + len(rets) != len(marks):
            # the same call number twice in one generation: the waiter itself ('startup') was started twice
            viol("C06.startup_count", {"want": 1, "form": "wait_until"},
                 f"{name}: the waiter function ('startup') ran more than once for one definition", marks[-1]["t"])
            continue
        if any(key not in begins for key in rets):
            raise RuntimeError(f"waiter markers of {name} are not begin/ret pairs")
        func_kind = "cron_only" if all(sp["type"] == "cron" for sp in wt["specs"]) else "has_once_or_period"
        now_relative = any((sp["type"] == "once" and sp["at"]["date"]["k"] == "now")
                           or (sp["type"] == "period" and sp["start"]["date"]["k"] == "now") for sp in wt["specs"])
        timeonly_period = any(sp["type"] == "period" and sp["start"]["date"]["k"] == "none" for sp in wt["specs"])
        pokes = [pk for pk in info.get("pokes") or [] if pk["w"] == name]
        if wt["others"]:
            w.probe("wait_until_with_other_triggers")
        for key in sorted(begins):
            beg, ret = begins[key], rets.get(key)
            t_beg = beg["vt"]
            desc = (f"{name} gen {key[0]} call {key[1]} begun at wall {beg['wall']}: "
                    f"{_wait_call_src(wt)} tz={w.cfg['tz']}")
            # ---- up to where the call is judged: its return, the end of the run, a reload after its beginning, or
            # the first poke that satisfies one of its other conditions (plus the hold time, if that is the state)
            cutoff = info["end"]
            for rel in info["reloads"]:
                if rel["vt0"] >= t_beg - slack:
                    cutoff = min(cutoff, rel["vt0"])
                    break
            for pk in pokes:
                if not pk["go"] or pk["vt"] < t_beg - slack:
                    continue
                hold = (wt.get("hold") or 0.0) if pk["via"] == "state" else 0.0
                if pk.get("blip") and hold and pk["blip"] < hold - 2 * slack:
                    continue  # true for less than the hold time: never qualifies
                cutoff = min(cutoff, pk["vt"] + hold)
                break
            t_ret = ret["vt"] if ret is not None else None
            horizon = cutoff if t_ret is None else max(min(cutoff, t_ret), t_beg)
            woken = [pk for pk in pokes if t_beg + slack < pk["vt"] < (t_ret if t_ret is not None else cutoff) - slack
                     and pk["vt"] < cutoff]
            if woken:
                w.probe("wait_until_woken_not_qualifying")
                if now_relative:
                    w.probe("wait_until_woken_now_relative")
                if any(pk.get("blip") and wt.get("hold") for pk in woken):
                    w.probe("wait_until_hold_started_and_cancelled")
            if now_relative:
                w.probe("wait_until_now_relative")
            startup_local = beg["wall"]
            hi_local = clock.local_at(horizon + 2 * slack)
            expected = _denoted(w, clock, zone, sun, wt["specs"], startup_local, startup_local, hi_local, t_beg, horizon,
                                slack)
            if any(e[0] == "dontcare_all" for e in expected):
                continue
            # ---- the first instant that must end the call, and the don't-care instants before it
            may, first = [], None
            for vt, inst, kind, strict in sorted(expected, key=lambda e: e[0]):
                near_dst = zone.offset_changes_between(inst - dt.timedelta(hours=26), inst + dt.timedelta(hours=26))
                if kind == "period" and timeonly_period and strict and near_dst:
                    may.append((vt, inst, kind, strict))  # daily re-anchored period next to a DST change: open
                elif vt - t_beg < slack + 1e-3:
                    may.append((vt, inst, kind, strict))  # within a few passes of the beginning: before or after 'now'?
                elif zone.irregular(inst) and (kind == "cron" or kind.startswith("once")):
                    may.append((vt, inst, kind, strict))
                elif in_stall(vt):
                    w.probe("stall_past_instant")
                    may.append((vt, inst, kind, strict))
                elif any(rel["vt0"] - slack <= vt <= rel["vt1"] + slack for rel in info["reloads"]):
                    may.append((vt, inst, kind, strict))
                else:
                    first = (vt, inst, kind, strict)
                    break
            wall_ref = ret["wall"] if ret is not None else (first[1] if first else startup_local)
            after = zone.offset_changes_between(wall_ref - dt.timedelta(days=4), wall_ref + dt.timedelta(hours=25))
            sig = {"func": func_kind, "dst": "near_change" if after else "none", "form": "wait_until"}
            rtype = ret["raw_kw"].get("trigger_type") if ret is not None else None
            label = ret["raw_kw"].get("trigger_time") if ret is not None else None
            if rtype == "time" and t_ret <= cutoff + slack:
                n_time += 1
                w.probe("wait_until_time_return")
                if not isinstance(label, dt.datetime):
                    viol("C06.trigger_time_label", {**sig, "kind": "none"},
                         f"{desc}: returned trigger_type 'time' with trigger_time {label!r}", ret["t"])
                    continue
                if zone.irregular(label):
                    continue  # an instant labelled inside a DST gap/fold hour: don't-care, as for decorated functions
                if first is not None and -0.005 <= t_ret - first[0] <= slack:
                    vt, inst, kind, strict = first
                    if zone.irregular(label):
                        continue
                    crossed = zone.offset_changes_between(startup_local, inst) or zone.irregular(inst)
                    tol = LABEL_TOL if strict else (None if (kind == "period" and crossed) else slack)
                    if tol is not None and abs((label - inst).total_seconds()) > tol:
                        viol("C06.trigger_time_label", {**sig, "kind": kind.split(":")[0]},
                             f"{desc}: returned at wall {ret['wall']} with trigger_time {label}, the denoted instant is "
                             f"{inst}", ret["t"])
                    continue
                if any(-0.005 <= t_ret - vt <= slack + longest_stall for vt, _i, _k, _s in may):
                    continue
                if first is not None and t_ret > first[0] + slack:
                    msig = dict(sig)
                    if not after:
                        msig["kind"] = first[2]
                    if poked_just_before(name, first[0]):
                        msig["poke"] = "just_before_instant"
                    viol("C06.missed_instant", msig,
                         f"{desc}: no return at the first denoted instant {first[1]}; it returned at wall {ret['wall']} with "
                         f"trigger_time {label}" + (f" after being woken at {[round(pk['vt'] - t_beg, 3) for pk in woken]} s "
                                                    "into the call without a condition being met" if woken else ""),
                         first[0] - clock.vt0)
                else:
                    viol("C06.spurious_run", sig,
                         f"{desc}: returned at wall {ret['wall']} (trigger_time {label}), which is no denoted instant; the "
                         f"first one is {first[1] if first else None}", ret["t"])
                continue
            if ret is not None:
                if rtype == "none":
                    w.probe("wait_until_none_left")
                elif rtype != "time":
                    w.probe("wait_until_other_trigger_first")
            else:
                w.probe("wait_until_pending_at_end")
            # ---- returned for another reason (or after a qualifying poke), or still pending: nothing passed over?
            limit = min(cutoff, t_ret) if t_ret is not None else cutoff
            if first is not None and first[0] < limit - slack:
                msig = dict(sig)
                if not after:
                    msig["kind"] = first[2]
                if poked_just_before(name, first[0]):
                    msig["poke"] = "just_before_instant"
                how = (f"it returned {rtype!r} at wall {ret['wall']}" if ret is not None
                       else f"still waiting at wall {clock.local_at(cutoff)}")
                viol("C06.missed_instant", msig,
                     f"{desc}: no return at the first denoted instant {first[1]}; {how}"
                     + (f" after being woken at {[round(pk['vt'] - t_beg, 3) for pk in woken]} s into the call without "
                        "a condition being met" if woken else ""), first[0] - clock.vt0)
    return n_time


def oracle(w: World, scn: dict, info: dict):
    spec = scn["spec"]
    sub = "legacy" if w.cfg["legacy"] else "new"
    zone = C.Zone(w.cfg["tz"])
    clock = w.clock
    sun = _sun_factory(w, w.cfg["tz"])
    slack = 0.08 + w.cfg["timer_late_ms"] * 1e-3 + 100 * w.loop.cost
    violations = []
    n_fired = 0

    def viol(cls, sig, detail, t=0.0):
        violations.append({"class": cls, "sig": {"subsystem": sub, **sig}, "detail": detail, "t": t})

    # definition epochs: (generation, vt of definition, vt of removal)
    epochs = [{"gen": 0, "vt0": info["def0"], "vt1": None}]
    for rel in info["reloads"]:
        epochs[-1]["vt1"] = rel["vt0"]
        epochs.append({"gen": rel["gen"], "vt0": rel["vt1"], "vt1": None, "reload_span": (rel["vt0"], rel["vt1"])})
    epochs[-1]["vt1"] = info["end"]
    stalls = info["stalls"]

    def in_stall(vt):
        return any(s["vt0"] - slack <= vt <= s["vt1"] + slack for s in stalls)

    def stalled_past(vt):
        return any(s["vt0"] - slack <= vt <= s["vt1"] for s in stalls)

    def poked_just_before(name, vt):
        """Was a poke of that function / waiter delivered within a few loop passes of the instant?  (Before it, as far
        as the trigger is concerned - it did not fire; the instant of a now-relative specification is known to the
        oracle only to a few passes.)"""
        near = 10 * w.cfg["cost_us"] * 1e-6 + w.cfg["timer_late_ms"] * 1e-3 + 1e-4
        return any(pk["w"] == name and abs(pk["vt"] - vt) <= near for pk in info["pokes"])

    for func in spec["funcs"]:
        if func.get("other") and func["specs"]:
            w.probe("function_with_other_trigger")
            if any(pk["w"] == func["name"] and "aimed" in pk for pk in info["pokes"]):
                w.probe("function_poked_just_before_instant")
        for ep in epochs:
            marks = [m for m in w.marks if m["args"][0] == func["name"] and m["args"][1] == ep["gen"]]
            if func.get("other"):
                # (runs by the other trigger - its condition is never met - would be another property's subject)
                marks = [m for m in marks if m["raw_kw"].get("trigger_type") == "time"]
            timed = [m for m in marks if isinstance(m["raw_kw"].get("trigger_time"), dt.datetime)]
            startups = [m for m in marks if m["raw_kw"].get("trigger_time") == "startup"]
            shutdowns = [m for m in marks if m["raw_kw"].get("trigger_time") == "shutdown"]
            desc = f"{func['name']} gen {ep['gen']} [{', '.join(C.spec_src(s) for s in func['specs'])}] tz={w.cfg['tz']}"
            # ---- startup / shutdown exactly once per definition / removal
            want_start = 1 if func["startup"] else 0
            if len(startups) != want_start:
                viol("C06.startup_count", {"want": want_start}, f"{desc}: 'startup' ran {len(startups)} times")
            elif want_start:
                w.probe("startup_fired")
            want_shut = 1 if func["shutdown"] else 0
            if len(shutdowns) != want_shut:
                viol("C06.shutdown_count", {"want": want_shut, "last": ep is epochs[-1]},
                     f"{desc}: 'shutdown' ran {len(shutdowns)} times for one removal")
            elif want_shut:
                w.probe("shutdown_fired")
            for m in marks:
                kw = {k: v for k, v in m["kw"].items() if k not in ("trigger_time", "context")}
                if kw != {"trigger_type": "time", **func["kwargs"]}:
                    viol("C06.kwargs", {}, f"{desc}: run kwargs {m['kw']}")
                    break
            if not func["specs"]:
                continue
            func_kind = "cron_only" if all(sp["type"] == "cron" for sp in func["specs"]) else "has_once_or_period"
            # ---- denoted instants of this definition epoch
            startup_local = clock.local_at(ep["vt0"])
            lo_local = startup_local
            hi_local = clock.local_at(ep["vt1"] + 2 * slack)  # instants at the very end are kept as don't-care
            expected = _denoted(w, clock, zone, sun, func["specs"], startup_local, lo_local, hi_local, ep["vt0"],
                                ep["vt1"], slack)
            if any(e[0] == "dontcare_all" for e in expected):
                continue
            # labels inside a gap/fold hour are don't-care; instants at the very edges of the epoch too
            must, may = [], []
            timeonly_period = any(sp["type"] == "period" and sp["start"]["date"]["k"] == "none" for sp in func["specs"])
            for vt, inst, kind, strict in sorted(expected, key=lambda e: e[0]):
                if kind == "period" and timeonly_period and strict and (
                        zone.offset_changes_between(inst - dt.timedelta(hours=26), inst + dt.timedelta(hours=26))):
                    # daily re-anchored period on/next to a DST-change day: the docs do not settle it
                    may.append((vt, inst, kind, strict))
                    continue
                # an absolute instant within a few passes of the definition: before or after 'now'? open
                edge = vt - ep["vt0"] < slack + 1e-3 and strict
                late_edge = ep["vt1"] - vt < slack
                irregular = zone.irregular(inst) and (kind == "cron" or kind.startswith("once"))
                if "reload_span" in ep and ep["reload_span"][0] - slack <= vt <= ep["reload_span"][1] + slack:
                    may.append((vt, inst, kind, strict))
                elif irregular or late_edge or edge or stalled_past(vt) or in_stall(vt):
                    if stalled_past(vt):
                        w.probe("stall_past_instant")
                    may.append((vt, inst, kind, strict))
                else:
                    must.append((vt, inst, kind, strict))
            # merge instants denoted by several specs at the same moment (union semantics)
            merged = []
            for item in must:
                if merged and merged[-1][1] == item[1] and merged[-1][3] and item[3]:
                    continue  # several specs denote the very same instant: one run (union)
                if merged and abs(merged[-1][0] - item[0]) < slack and not (merged[-1][3] and item[3]):
                    # a now-relative instant next to another one: the definition instant is only known to a few
                    # passes, so whether they coincide (one run) or not (two runs) is open
                    may.append(item)
                    continue
                merged.append(item)
            must = merged
            if spec["dst"] and any(zone.offset_changes_between(lo_local, e[1]) for e in must):
                w.probe("dst_day_crossed")
            if len(func["specs"]) > 1:
                w.probe("two_specs_one_decorator")
            # ---- match observed runs with expected instants, in time order
            used = set()
            last_vt = -1.0
            for m in timed:
                n_fired += 1
                if m["vt"] < last_vt:
                    viol("C06.order", {}, f"{desc}: runs out of order", m["t"])
                last_vt = m["vt"]
                label = m["raw_kw"]["trigger_time"]
                if zone.irregular(label):
                    # a label inside a DST gap/fold hour is don't-care, but the run still counts for a denoted
                    # instant at the same absolute time (02:00 in the gap and 03:00 are one moment)
                    for idx, (vt, inst, kind, strict) in enumerate(must):
                        if idx not in used and -0.005 <= m["vt"] - vt <= slack:
                            used.add(idx)
                            break
                    continue
                hit = None
                best = None
                for idx, (vt, inst, kind, strict) in enumerate(must):
                    if idx in used:
                        continue
                    if -0.005 <= m["vt"] - vt <= slack:
                        dist = abs((label - inst).total_seconds())
                        if best is None or dist < best:
                            best, hit = dist, idx
                if hit is not None:
                    used.add(hit)
                    vt, inst, kind, strict = must[hit]
                    tol = LABEL_TOL if strict else (slack if kind != "period" else None)
                    kind = kind.split(":")[0] if tol is not None else kind
                    if tol is not None and abs((label - inst).total_seconds()) > tol:
                        after = zone.offset_changes_between(m["wall"] - dt.timedelta(days=4), m["wall"] + dt.timedelta(hours=25))
                        viol("C06.trigger_time_label",
                             {"kind": kind, "func": func_kind, "dst": "near_change" if after else "none"},
                             f"{desc}: run at wall {m['wall']} carries trigger_time {label}, the denoted instant is {inst}", m["t"])
                    continue
                # not a must instant: acceptable only if it is a don't-care instant
                ok = any(-0.005 <= m["vt"] - vt <= slack + (max((s["vt1"] - s["vt0"] for s in stalls), default=0.0))
                         for vt, _i, _k, _s in may)
                dup = any(abs((label - inst).total_seconds()) < 0.002 for _v, inst, _k, _s in must)
                if not ok:
                    after = zone.offset_changes_between(m["wall"] - dt.timedelta(days=4), m["wall"] + dt.timedelta(hours=25))
                    viol("C06.repeated_instant" if dup else "C06.spurious_run",
                         {"func": func_kind, "dst": "near_change" if after else "none"},
                         f"{desc}: run at wall {m['wall']} (trigger_time {label}) matches no denoted instant; expected "
                         f"{[str(e[1]) for e in must][:12]}", m["t"])
            for idx, (vt, inst, kind, strict) in enumerate(must):
                if idx not in used:
                    near = [str(m["wall"]) for m in timed if abs(m["vt"] - vt) < 4000][:4]
                    after = zone.offset_changes_between(inst - dt.timedelta(days=4), inst + dt.timedelta(hours=25))
                    msig = {"func": func_kind, "dst": "near_change" if after else "none"}
                    if not after:
                        msig["kind"] = kind
                    how = ""
                    if poked_just_before(func["name"], vt):
                        msig["poke"] = "just_before_instant"
                        how = (f"; its {func.get('other')} trigger was poked (condition not met) "
                               f"{[round((vt - pk['vt']) * 1e6) for pk in info['pokes'] if pk['w'] == func['name'] and abs(pk['vt'] - vt) < 0.5]}"
                               " us before the instant")
                    viol("C06.missed_instant", msig,
                         f"{desc}: no run at the denoted instant {inst} (runs near it: {near}; all runs "
                         f"{[str(m['raw_kw']['trigger_time']) for m in timed][:12]}){how}", vt - clock.vt0)
    n_fired += _judge_waiters(w, scn, info, viol, zone, clock, sun, slack, stalls, poked_just_before)
    for bad in info.get("successor") or []:
        # (the successor function is shared by both subsystems: the special cases are not split by subsystem)
        viol("C06.successor_function",
             {"on_instant": bad["on_instant"], **({"case": bad["case"], "subsystem": "any"} if "case" in bad else {})},
             f"timer_trigger_next({bad['specs']}, now={bad['now']}, startup={bad['startup']}) = {bad['got']}, the earliest "
             f"denoted instant strictly after now is {bad['want']}")
    if w.cfg["drift"] < 0:
        w.probe("early_wakeup_rewait")
    frac = dt.datetime.fromisoformat(w.cfg["epoch_utc"]).microsecond
    if frac:
        w.probe("sub_second_start")
    violations.sort(key=lambda v: v.get("t", 0.0))
    return violations, n_fired >= 3, {"fired": n_fired}
