"""C18 - script errors are contained and attributed to the right file, function, line.

Workload: 2-4 generated script files.  The main file ``pyscript/c18a.py`` (optionally plus
the module ``pyscript/modules/c18mod.py`` it imports) holds a call chain of 1-5 frames -
plain functions, a method of a small class, a user-written decorator wrapper, a closure,
a self-recursive function, the body of a class statement, functions of the imported module, and as the last
frame optionally a natively compiled one (``@pyscript_compile`` function at file level or inside a function, a
``lambda``) - whose call sites are of
generated statement kinds (assign / return / augmented assign / comprehensions /
multi-line calls / if, for, while, try, finally, except, else bodies and tests / f-string /
keyword argument / ...), with filler statements before and after so line numbers vary.  The last
frame holds ONE fault: a raising expression (ZeroDivisionError, NameError, TypeError,
ValueError, KeyError, IndexError, AttributeError, OverflowError, UnicodeDecodeError) or a
raise/assert statement (any builtin Exception class, user classes, ``raise .. from ..``,
implicit context, ``from None``, bare and named re-raise, a cause raised in a deeper helper, an exception that is
its own cause, two exceptions that are each other's cause).
The chain is entered from a generated entry point: @state_trigger / @event_trigger /
@time_trigger function, @service function, @state_trigger expression, @state_active
expression, @event_trigger filter expression, done-callback, task.create()d function,
@time_trigger("shutdown") function, top-level statement of the file, top-level statement of
an imported module.  A witness function in the same file and one in each other file (own
trigger each) mark when they run.  The driver delivers the faulty stimulus 1-3 times with the
witnesses before / between / after.

Oracle (from the property text):
* every occurrence (a ``sim.mark("pre")`` just before the chain is entered) has exactly one
  ERROR record carrying ``<Type>: <message>`` on the logger tree of a script
  (``custom_components.pyscript.file.<f>[.*]`` / ``...modules.<m>[.*]``);
* the (file, function, line) triples of the script frames of that record equal those of
  CPython's own traceback for the same source (the rendered files are compiled and run natively
  in the harness with stub trigger decorators) - for every exception of a cause/context chain;
* nothing reaches a ``homeassistant.*`` logger at ERROR or the loop exception handler, no task is left
  with an unretrieved exception, a blocking service call does not raise;
* every delivered stimulus reaches the user code again; witnesses run exactly once per witness
  stimulus; a load-time fault leaves exactly that file (and a failing module) without a context.
"""

from __future__ import annotations

import builtins
import copy
import gc
import json
import os
import random
import re
import sys
import traceback
import types

from ..common import base_result, gen_cfg, gen_delay, wait_op
from ..world import HarnessError, World, pyscript_leftovers

PROPERTY = "C18"
LEVEL = "exploration"
RULE = (
    "seeded generation of (entry-point kind x call chain of 1-5 frames over function/method/decorator/"
    "closure/recursion/class-body/natively-compiled/lambda/imported-module frames x call-site statement kind x fault kind and statement "
    "position x 1-3 occurrences interleaved with witness stimuli x decorator subsystem); half of the runs "
    "steer away from the program shapes of the findings made on the unchanged tree; distinct = scenario "
    "digest; non-trivial = the fault was reached at least once in the simulation and natively"
)
ASSUMPTIONS = [
    "MemoryError is not among the injected exception classes: CPython keeps freed MemoryError objects on a free "
    "list and revives them without resetting __suppress_context__ (checked on 3.12.1: after 'raise MemoryError(..) "
    "from None' the next MemoryError() object has __suppress_context__ == True), so whether a later MemoryError "
    "shows its context section depends on which earlier MemoryError objects of the process were freed - for "
    "CPython's own traceback and for pyscript's alike. With it the comparison depended on the position of a run "
    "in its worker process (found by vp check with VERIF_SEED=1: a violation that did not replay)",
    "reference for type, message and (file, function, line) triples is the running CPython (3.12) executing "
    "the same rendered source with no-op stubs for pyscript-only names (sim, task, trigger decorators)",
    "'that script's logger' = custom_components.pyscript.file.<f> / .modules.<m> or any child logger",
    "a record is a report of the fault iff it is ERROR level and contains '<Type>: <message>' of the "
    "outermost exception; summary lines such as 'Failed to load <path>' are not reports",
    "frames of files under custom_components/pyscript and of the standard library are ignored; for decorator "
    "string expressions the synthetic expression frame is don't-care; the function NAME of a module-level "
    "frame (CPython: '<module>') is don't-care, its file and line are compared",
    "BaseException-only kinds (SystemExit, KeyboardInterrupt, CancelledError, GeneratorExit) are not injected "
    "(documented: exit() can crash HA)",
    "StopIteration: all pyscript functions are documented to be async, and CPython itself turns a StopIteration "
    "that leaves a coroutine into 'RuntimeError: coroutine raised StopIteration' with the StopIteration as direct "
    "cause (PEP 479); exactly that wrapper is don't-care: a logged StopIteration section followed by that "
    "RuntimeError section counts as one section whose script frames are those of both - the report (once, script's "
    "logger, type and message of the StopIteration, frames) and containment are judged as for any other kind",
    "lambdas and @pyscript_compile functions are documented to be compiled to native Python functions: they appear "
    "only as the LAST frame of a chain (native code cannot call interpreted functions) and hold no pyscript "
    "features; their frames are compared like any other script frame (CPython names a lambda frame '<lambda>')",
    "a class statement inside a function cannot read the enclosing function's variables in pyscript (language "
    "fidelity, not this property): a generated class body starts with its own 'x = 1' (the value x has everywhere) "
    "so that the same source reaches the fault in both interpreters",
    "exceptions whose __cause__ chain is cyclic: reference = CPython's traceback module, which prints each "
    "exception of the chain once",
    "an exception left in a finished task counts as propagated into Home Assistant (asyncio reports it to the "
    "loop's exception handler when the task is destroyed)",
    "when a file fails because a module it imports fails at load time, one report on the importing file's "
    "logger is required and at most one more on the module's logger is accepted",
    "state-variable stimuli are never delivered in bursts (C04/C05 territory); events and service calls are",
    "stimuli start 0.5 virtual seconds after set-up (triggers start through executor jobs after "
    "EVENT_HOMEASSISTANT_STARTED); @time_trigger entry points run without clock drift (extra period firings "
    "under drift are C06/C07's subject) and only a lower bound of their occurrences is required",
    "spec.steer (half of the runs): no decorator/recursion/same-named adjacent frames, no cause/context chains, "
    "no import-time fault, no trigger-function entry in the new subsystem, no class-body / lambda / inner compiled "
    "frames - the shapes of the findings on the "
    "unchanged tree - so that the remaining clauses keep being judged in runs no known finding taints",
]
TIERS = {
    "quick": {"runs": 8000, "chunk": 500, "shrink_budget": 25},
    "thorough": {"runs": 130000, "chunk": 1000, "shrink_budget": 60},
}
REACH_PROBES = [
    "script_reloaded_while_faulty_run_suspended",
    "fault_in_trigger_function", "fault_in_service", "fault_in_expression", "fault_in_expression_direct",
    "fault_in_done_callback", "fault_in_created_task", "fault_in_shutdown_trigger", "fault_at_load_time",
    "fault_at_import_time", "fault_in_imported_module", "fault_in_comprehension", "fault_in_method",
    "fault_through_decorator", "fault_through_closure", "fault_through_recursion", "chained_cause",
    "implicit_context", "multiline_fault_statement", "multiline_call_site", "depth5",
    "next_occurrence_served", "burst_occurrences", "reload_refails", "sibling_done_callback",
    "user_exception_class", "report_on_script_logger", "frames_equal_cpython",
    "fault_in_class_body", "fault_in_compiled_function", "fault_in_inner_compiled_function", "fault_in_lambda",
    "exception_is_its_own_cause", "cause_cycle", "stop_iteration", "stop_iteration_wrapper_folded",
]
SHRINK_LISTS = [["ops"], ["spec", "levels"], ["spec", "others"], ["spec", "entry_frame", "pre"],
                ["spec", "entry_frame", "post"], ["spec", "levels", "*", "pre"], ["spec", "levels", "*", "post"]]

MAIN = "c18a"
MOD = "c18mod"
MAIN_REL = f"pyscript/{MAIN}.py"
MOD_REL = f"pyscript/modules/{MOD}.py"
STATE_VAR = "pyscript.c18f"
FAULT_EVENT = "c18_fault"

ENTRY_KINDS = ["state_func", "event_func", "time_func", "service", "state_expr", "active_expr", "event_filter",
               "done_cb", "task_create", "shutdown", "load", "load_import"]
ENTRY_WEIGHTS = [10, 10, 6, 10, 9, 8, 8, 10, 9, 5, 8, 5]
EXPR_ENTRIES = ("state_expr", "active_expr", "event_filter")
LOAD_ENTRIES = ("load", "load_import")
STATE_STIM = ("state_func", "state_expr")
EVENT_STIM = ("event_func", "active_expr", "event_filter", "done_cb", "task_create")
ENTRY_CLASS = {
    "state_func": "trigger_function", "event_func": "trigger_function", "time_func": "trigger_function",
    "shutdown": "trigger_function", "service": "service_function", "state_expr": "expression",
    "active_expr": "expression", "event_filter": "expression", "done_cb": "done_callback",
    "task_create": "created_task", "load": "load_time", "load_import": "load_time",
}

LEVEL_KINDS = ["func", "method", "deco", "closure", "recurse", "classbody"]
LEVEL_WEIGHTS = [10, 6, 5, 3, 2, 3]
LEVEL_COST = {"func": 1, "method": 1, "deco": 2, "closure": 2, "recurse": 2, "classbody": 2}
# natively compiled frames: only as the last frame of the chain (they hold the fault; native code cannot call
# interpreted functions).  "compiled" = @pyscript_compile function, at file level or (level["inner"]) defined inside
# an interpreted function; "lambda" = a lambda defined and called inside an interpreted function
TERMINAL_KINDS = ("compiled", "lambda")
LAMBDA_FORMS = [
    ["lambda v: {E}"],
    ["lambda v: (", "    {E})"],
    ["lambda v: [{E} for _i in range(1)]"],
    ["lambda v: {E} if v >= 0 else 0"],
    ["lambda v, u=2: (u,", "                 {E})"],
]

# ---------------------------------------------------------------------------- statement shapes
# {E} = the expression (call of the next frame, or the raising expression)
SITES_EXPR = {
    "assign": ["r = {E}"],
    "return": ["return {E}"],
    "expr": ["{E}"],
    "augassign": ["r = 0", "r += {E}"],
    "annassign": ["r: int = {E}"],
    "tuple_assign": ["r, q = {E}, 0"],
    "listcomp": ["r = [{E} for _i in range(1)]"],
    "listcomp_if": ["r = [_i for _i in range(1) if {E} is not None]"],
    "dictcomp": ["r = {_i: {E} for _i in range(1)}"],
    "setcomp": ["r = {{E} for _i in range(1)}"],
    "nested_comp": ["r = [[{E} for _j in range(1)] for _i in range(1)]"],
    "ml_call": ["r = max(", "    x,", "    {E},", ")"],
    "ml_call_first": ["r = max({E},", "        x)"],
    "ml_binop": ["r = (x +", "     {E})"],
    "ml_list": ["r = [", "    x,", "    {E},", "]"],
    "ml_dict": ["r = {", "    'a': x,", "    'b': {E},", "}"],
    "ml_comp": ["r = [", "    {E}", "    for _i in range(1)", "]"],
    "if_test": ["if {E} is None:", "    r = 0"],
    "elif_test": ["if x < 0:", "    r = 0", "elif {E} is None:", "    r = 1"],
    "if_body": ["if x >= 0:", "    r = {E}"],
    "else_body": ["if x < 0:", "    r = 0", "else:", "    r = {E}"],
    "nested_blocks": ["for _i in range(1):", "    if x >= 0:", "        while True:", "            r = {E}",
                      "            break"],
    "for_iter": ["for _i in [{E}]:", "    r = _i"],
    "for_body": ["for _i in range(1):", "    r = {E}"],
    "for_else": ["for _i in range(0):", "    r = 0", "else:", "    r = {E}"],
    "while_test": ["while {E} is None:", "    break"],
    "while_body": ["_n = 1", "while _n > 0:", "    _n -= 1", "    r = {E}"],
    "try_body": ["try:", "    r = {E}", "finally:", "    q = 1"],
    "try_unrelated": ["try:", "    r = {E}", "except C18Unrelated:", "    r = 0"],
    "finally_body": ["try:", "    q = 1", "finally:", "    r = {E}"],
    "except_body": ["try:", "    raise C18Unrelated('c18 unrelated')", "except C18Unrelated:", "    r = {E}"],
    "try_else": ["try:", "    q = 1", "except C18Unrelated:", "    q = 2", "else:", "    r = {E}"],
    "ifexp": ["r = {E} if x >= 0 else 0"],
    "boolop": ["r = x < 0 or {E}"],
    "fstring": ["r = f\"v={({E})}\""],
    "subscript": ["r = [0, 1][0 * len(str({E}))]"],
    "kwarg": ["r = dict(a={E})"],
    "assert_test": ["assert {E} is not None, 'c18 no'"],
    "nested_call": ["r = str(abs(len(str({E}))))"],
    "namedexpr": ["if (r := {E}) is None:", "    q = 1"],
    "compare": ["r = 0 <= len(str({E})) <= 99"],
    "unary": ["r = not {E}"],
    "starred": ["r = [*[{E}]]"],
}
SITES_EXPR_TOPLEVEL_BAD = {"return"}
# {S} = the raising statement (possibly a block)
SITES_STMT = {
    "plain": ["{S}"],
    "if_body": ["if x >= 0:", "    {S}"],
    "else_body": ["if x < 0:", "    r = 0", "else:", "    {S}"],
    "for_body": ["for _i in range(1):", "    {S}"],
    "for_else": ["for _i in range(0):", "    r = 0", "else:", "    {S}"],
    "while_body": ["_n = 1", "while _n > 0:", "    _n -= 1", "    {S}"],
    "try_body": ["try:", "    {S}", "finally:", "    q = 1"],
    "try_unrelated": ["try:", "    {S}", "except C18Unrelated:", "    r = 0"],
    "finally_body": ["try:", "    q = 1", "finally:", "    {S}"],
    "except_body": ["try:", "    raise C18Unrelated('c18 unrelated')", "except C18Unrelated:", "    {S}"],
    "try_else": ["try:", "    q = 1", "except C18Unrelated:", "    q = 2", "else:", "    {S}"],
    "nested_blocks": ["for _i in range(1):", "    if x >= 0:", "        while True:", "            {S}"],
}
COMP_SITES = {"listcomp", "listcomp_if", "dictcomp", "setcomp", "nested_comp", "ml_comp"}
ML_SITES = {"ml_call", "ml_call_first", "ml_binop", "ml_list", "ml_dict", "ml_comp"}
CONTEXT_SITES = {"except_body"}

# raising expressions; {x} is the local integer variable (or the literal 1 in decorator strings)
FAULT_EXPR = {
    "zerodiv": "1 / ({x} - {x})",
    "floordiv": "{x} // 0",
    "modzero": "{x} % 0",
    "name": "c18_undefined_name",
    "type_add": "{x} + 's'",
    "type_len": "len({x})",
    "value": "int('c18x')",
    "key": "{}['c18k']",
    "key_int": "{1: 2}[{x} + 100]",
    "index": "[][{x} + 1]",
    "attr": "{x}.c18_no_attr",
    "overflow": "10.0 ** 400",
    "unicode": "b'\\xff'.decode('utf-8')",
    "stopiter": "next(iter([]))",
}
# raising statements; {Exc} builtin class, {E0} an inner raising expression
FAULT_STMT = {
    "raise_builtin": ["raise {Exc}('c18 boom')"],
    "raise_noargs": ["raise {Exc}"],
    "raise_ml": ["raise {Exc}(", "    'c18 boom'", ")"],
    "raise_user": ["raise C18Error('c18 user')"],
    "raise_user_sub": ["raise C18KeyError('c18 sub')"],
    "assert_stmt": ["assert x < 0, 'c18 assert'"],
    "assert_ml": ["assert (", "    x < 0", "), 'c18 assert'"],
    "raise_from_new": ["raise C18Error('c18 outer') from ValueError('c18 inner')"],
    "raise_from_caught": ["try:", "    r = {E0}", "except Exception as err:", "    raise C18Error('c18 outer') from err"],
    "raise_from_deep": ["try:", "    r = c18_thrower(x)", "except Exception as err:",
                        "    raise C18Error('c18 outer') from err"],
    "raise_builtin_from_caught": ["try:", "    r = {E0}", "except Exception as err:",
                                  "    raise {Exc}('c18 boom') from err"],
    "raise_builtin_in_except": ["try:", "    r = {E0}", "except Exception:", "    raise {Exc}('c18 boom')"],
    "raise_in_except": ["try:", "    r = {E0}", "except Exception:", "    raise C18Error('c18 ctx')"],
    "raise_from_none": ["try:", "    r = {E0}", "except Exception:", "    raise C18Error('c18 none') from None"],
    "reraise_bare": ["try:", "    r = {E0}", "except Exception:", "    q = 1", "    raise"],
    "reraise_var": ["try:", "    r = {E0}", "except Exception as err:", "    raise err"],
    # the statement's own operation raises (not one of its operand expressions): the interpreter evaluates these
    # through nodes it synthesises or through its assignment/deletion routines, so the line must come from the
    # statement itself
    "aug_mod_zero": ["r = 7", "r %= (x - x)"],
    "aug_div_zero": ["r = 1", "r /= (x - x)"],
    "aug_pow_overflow": ["r = 10.0", "r **= 400"],
    "aug_subscript": ["r = [5]", "r[0] //= (x - x)"],
    "aug_ml": ["r = 1", "r /= (", "    x - x", ")"],
    "del_item": ["r = {}", "del r['c18k']"],
    "store_index": ["r = []", "r[x + 3] = 1"],
    "store_attr": ["r = 1", "r.c18_no_attr = 1"],
    # cyclic __cause__ chains: an exception that is its own cause; two exceptions that are each other's cause
    "raise_from_self": ["err = {Exc}('c18 boom')", "raise err from err"],
    "raise_user_from_self": ["err = C18Error('c18 self')", "q = 1", "raise err from err"],
    "raise_cause_cycle": ["ea = C18Error('c18 outer')", "eb = ValueError('c18 inner')", "try:", "    raise eb from ea",
                          "except Exception:", "    raise ea from eb"],
}
CHAINED_FAULTS = {"raise_from_new", "raise_from_caught", "raise_from_deep", "raise_cause_cycle",
                  "raise_builtin_from_caught"}
SELF_CAUSE_FAULTS = {"raise_from_self", "raise_user_from_self"}
# natively compiled code cannot use what the interpreter defines (documented): neither the interpreted helper nor
# the classes of the file (the interpreter keeps them in its own variable objects)
NOT_NATIVE_FAULTS = {"raise_from_deep", "raise_user", "raise_user_sub", "raise_from_new", "raise_from_caught",
                     "raise_in_except", "raise_from_none", "raise_user_from_self", "raise_cause_cycle"}
NOT_NATIVE_SITES = {"try_unrelated", "except_body", "try_else"}
CONTEXT_FAULTS = {"raise_in_except", "raise_builtin_in_except"}
ML_FAULTS = {"raise_ml", "assert_ml", "aug_ml"}
BUILTIN_EXCS = [
    "Exception", "RuntimeError", "ValueError", "KeyError", "IndexError", "LookupError", "ArithmeticError",
    "ZeroDivisionError", "OverflowError", "FloatingPointError", "AssertionError", "AttributeError", "TypeError",
    "NameError", "UnboundLocalError", "NotImplementedError", "RecursionError", "OSError", "FileNotFoundError",
    "PermissionError", "TimeoutError", "ConnectionError", "BrokenPipeError", "EOFError", "ImportError",
    "ModuleNotFoundError", "BlockingIOError", "BufferError", "ReferenceError", "UnicodeError", "SyntaxError",
    "IndentationError", "SystemError", "UserWarning", "DeprecationWarning", "StopIteration", "StopAsyncIteration",
]
FILLERS = [
    ["q0 = x + 1"],
    ["# c18 filler comment"],
    [""],
    ["q3 = [", "    x,", "    2,", "]"],
    ["if x < 0:", "    q4 = 0"],
    ["q5 = str(x)"],
    ["for _k in range(2):", "    q6 = _k"],
]
WIT_KINDS = ["event", "state", "service"]


# ---------------------------------------------------------------------------- generation
def _gen_fill(rng: random.Random, hi: int = 3) -> list:
    return [rng.randrange(len(FILLERS)) for _ in range(rng.choice([0, 0, 1, 1, 2, hi]))]


def _gen_fault(rng: random.Random, direct: bool, steer: bool, terminal: str | None = None) -> dict:
    if direct:
        return {"kind": rng.choice(["zerodiv", "floordiv", "name", "type_add", "value", "key", "index", "attr",
                                    "overflow"]), "site": "expr", "exc": None, "inner": None}
    if terminal == "lambda" or rng.random() < 0.45:
        sites = sorted(SITES_EXPR)
        if steer:
            sites = [st for st in sites if st not in CONTEXT_SITES]
        if terminal == "compiled":
            sites = [st for st in sites if st not in NOT_NATIVE_SITES]
        return {"kind": rng.choice(sorted(FAULT_EXPR)), "site": rng.choice(sites), "exc": None, "inner": None}
    kinds = sorted(FAULT_STMT)
    sites = ["plain", "plain"] + sorted(SITES_STMT)
    if steer:
        kinds = [k for k in kinds if k not in CHAINED_FAULTS | CONTEXT_FAULTS | {"reraise_var"}]
        sites = [st for st in sites if st not in CONTEXT_SITES]
    if terminal == "compiled":
        kinds = [k for k in kinds if k not in NOT_NATIVE_FAULTS]
        sites = [st for st in sites if st not in NOT_NATIVE_SITES]
    return {"kind": rng.choice(kinds), "site": rng.choice(sites), "exc": rng.choice(BUILTIN_EXCS),
            "inner": rng.choice(sorted(FAULT_EXPR))}


def gen(rng: random.Random, tier: str) -> dict:
    cfg = gen_cfg(rng)
    cfg["initial_states"] = {STATE_VAR: ["idle", {}], "pyscript.c18w_same": ["w0", {}]}
    for oi in range(2):
        cfg["initial_states"][f"pyscript.c18w_o{oi}"] = ["w0", {}]
    # half of the runs steer away from the program shapes behind the findings already made on the unchanged
    # tree (same-named adjacent frames, chained sections, import-time faults, trigger functions of the new
    # subsystem) so that everything else keeps being judged once those are listed as known
    steer = rng.random() < 0.5
    entry = rng.choices(ENTRY_KINDS, ENTRY_WEIGHTS)[0]
    if steer:
        while entry == "load_import" or (not cfg["legacy"] and ENTRY_CLASS[entry] == "trigger_function"):
            entry = rng.choices(ENTRY_KINDS, ENTRY_WEIGHTS)[0]
    direct = entry in EXPR_ENTRIES and rng.random() < 0.2
    depth = 1 if direct else rng.choice([1, 2, 2, 3, 3, 4, 5, 5])
    levels = []
    frames = 1
    in_mod = entry == "load_import"
    call_sites = [st for st in sorted(SITES_EXPR) if not (steer and st in CONTEXT_SITES)]
    # the last frame may be a natively compiled one (steered runs: only the file-level @pyscript_compile function)
    terminal = None
    if not direct and rng.random() < 0.2:
        terminal = rng.choice([{"kind": "compiled", "inner": False}] if steer else
                              [{"kind": "compiled", "inner": False}, {"kind": "compiled", "inner": True},
                               {"kind": "lambda", "inner": False}, {"kind": "lambda", "inner": True}])
        terminal["cost"] = 2 if terminal["inner"] else 1
        if frames + terminal["cost"] > depth:
            terminal = None
    while frames < depth - (terminal["cost"] if terminal else 0):
        if steer:
            kind = rng.choices(["func", "method", "closure"], [10, 6, 3])[0]
            if kind == "method" and levels and levels[-1]["kind"] == "method":
                kind = "func"  # two adjacent frames called 'run'
        else:
            kind = rng.choices(LEVEL_KINDS, LEVEL_WEIGHTS)[0]
        if frames + LEVEL_COST[kind] > depth - (terminal["cost"] if terminal else 0):
            kind = "func"
        if not in_mod and rng.random() < 0.22:
            in_mod = True
        levels.append({"kind": kind, "mod": in_mod, "pre": _gen_fill(rng), "post": _gen_fill(rng, 2),
                       "site": rng.choice(call_sites)})
        frames += LEVEL_COST[kind]
    if terminal:
        if not in_mod and rng.random() < 0.22:
            in_mod = True
        levels.append({"kind": terminal["kind"], "inner": terminal["inner"], "mod": in_mod, "pre": _gen_fill(rng),
                       "post": _gen_fill(rng, 2), "site": rng.choice(call_sites),
                       "lam_form": rng.randrange(len(LAMBDA_FORMS))})
    spec = {
        "entry": entry,
        "direct": direct,
        "steer": steer,
        "entry_frame": {"pre": _gen_fill(rng), "post": _gen_fill(rng, 2), "site": rng.choice(call_sites)},
        "levels": levels,
        "fault": _gen_fault(rng, direct, steer, terminal["kind"] if terminal else None),
        "import": rng.choice(["import", "from"]),
        "pad": rng.randrange(0, 6),
        "order": rng.randrange(1 << 16),
        "wit_same": {"kind": rng.choice(WIT_KINDS), "pos": rng.choice(["before", "after"])},
        "others": [{"kind": rng.choice(WIT_KINDS), "co": rng.random() < 0.5} for _ in range(rng.choice([1, 1, 2]))],
        "cb_on": rng.choice(["self", "created"]),
        "cb_sibling": rng.choice([None, "before", "after"]),
    }
    if entry == "time_func":
        cfg["drift"] = 0.0  # a drifting wall clock makes period() fire twice per instant (C06/C07's subject)
    # ---- stimuli
    if entry == "shutdown":
        n_fault = 0
    elif entry in LOAD_ENTRIES:
        n_fault = rng.choice([0, 1, 1, 2])  # reloads after the initial load
    else:
        n_fault = rng.choice([2, 2, 3])
    ops = []
    # a function body that suspends after the occurrence was counted, so that its script can be reloaded while the
    # run is in flight: the error raised afterwards is still that script's error and still has to be reported
    nap = rng.choice([0, 0, 0.3]) if entry in ("service", "event_func", "state_func") else 0
    spec["nap"] = nap

    def wit_ops():
        for _ in range(rng.choice([0, 1, 1, 2])):
            op = gen_delay(rng, burst_p=0.2, max_steps=3)
            op.update({"kind": "wit", "w": rng.randrange(-1, len(spec["others"]))})
            ops.append(op)

    wit_ops()
    for _ in range(n_fault):
        burst_ok = entry in EVENT_STIM or entry == "service"
        op = gen_delay(rng, burst_p=0.25 if burst_ok else 0.0, max_steps=3)
        if not burst_ok and "passes" in op:
            op = {"dt": 0.25}
        op.update({"kind": "fault", "blocking": rng.random() < 0.7})
        if nap and rng.random() < 0.5:
            op.update({"blocking": False, "reload_after": 0.1})
        ops.append(op)
        wit_ops()
    if not any(op["kind"] == "wit" for op in ops):
        ops.append({"dt": 0.25, "kind": "wit", "w": rng.randrange(-1, len(spec["others"]))})
    return {"cfg": cfg, "spec": spec, "ops": ops}


# ---------------------------------------------------------------------------- rendering
def _fill_lines(codes: list) -> list:
    out = []
    for code in codes:
        out.extend(FILLERS[code % len(FILLERS)])
    return out


# in a class body inside a function pyscript does not resolve the file's own classes in an except clause (language
# fidelity, not this property): the shape that relies on catching one is not rendered there
SITES_CLASSBODY_BAD = {"return", "except_body"}


def _apply_expr_site(site: str, expr: str, toplevel) -> list:
    """``toplevel``: False (function body), True (file level) or "class" (class body)."""
    if site not in SITES_EXPR or (toplevel and site in SITES_EXPR_TOPLEVEL_BAD):
        site = "assign"
    if toplevel == "class" and site in SITES_CLASSBODY_BAD:
        site = "assign"
    return [line.replace("{E}", expr) for line in SITES_EXPR[site]]


def _apply_stmt_site(site: str, stmt: list, toplevel=False) -> list:
    if site not in SITES_STMT or (toplevel == "class" and site in SITES_CLASSBODY_BAD):
        site = "plain"
    out = []
    for line in SITES_STMT[site]:
        if line.strip() == "{S}":
            ind = line[: len(line) - len(line.lstrip())]
            out.extend(ind + s for s in stmt)
        else:
            out.append(line)
    return out


def _fault_lines(fault: dict, toplevel: bool, xvar: str = "x") -> list:
    kind = fault["kind"]
    if kind in FAULT_EXPR:
        return _apply_expr_site(fault["site"], FAULT_EXPR[kind].replace("{x}", xvar), toplevel)
    inner = FAULT_EXPR[fault.get("inner") or "zerodiv"].replace("{x}", xvar)
    exc_name = fault.get("exc") or "RuntimeError"
    if kind == "raise_noargs" and exc_name in ("SyntaxError", "IndentationError"):
        exc_name = "RuntimeError"  # str(SyntaxError()) is 'None': no message to look for
    stmt = [s.replace("{Exc}", exc_name).replace("{E0}", inner) for s in FAULT_STMT[kind]]
    return _apply_stmt_site(fault["site"], stmt, toplevel)


def _direct_expr(spec: dict) -> str:
    kind = spec["fault"]["kind"]
    return FAULT_EXPR[kind if kind in FAULT_EXPR else "zerodiv"].replace("{x}", "(1)")


def _call_expr(level: dict, idx: int, prefix: str) -> str:
    if level["kind"] == "method":
        return f"{prefix}C18K{idx}(x).run(x)"
    return f"{prefix}c18_f{idx}(x)"


def _export_name(level: dict, idx: int) -> str:
    return f"C18K{idx}" if level["kind"] == "method" else f"c18_f{idx}"


def _indent(lines: list, n: int) -> list:
    pad = " " * n
    return [(pad + ln) if ln else ln for ln in lines]


def _eff_kind(spec: dict, idx: int) -> str:
    """Kind a level is rendered as: natively compiled kinds only where they are possible."""
    kind = spec["levels"][idx]["kind"]
    if kind in TERMINAL_KINDS:
        fkind = spec["fault"]["kind"]
        if idx != len(spec["levels"]) - 1:
            return "func"
        if kind == "lambda" and fkind not in FAULT_EXPR:
            return "func"
        if kind == "compiled" and (fkind in NOT_NATIVE_FAULTS or spec["fault"]["site"] in NOT_NATIVE_SITES):
            return "func"
    return kind


def _lambda_lines(level: dict, target: str, expr: str) -> list:
    form = LAMBDA_FORMS[level.get("lam_form", 0) % len(LAMBDA_FORMS)]
    lines = [line.replace("{E}", expr) for line in form]
    return [f"{target} = {lines[0]}"] + lines[1:]


def _level_def(level: dict, idx: int, action: list, kind: str | None = None, lam_expr: str = "v") -> list:
    """Source of one chain level; ``action`` = lines of the call of the next frame / of the fault."""
    body = _fill_lines(level["pre"]) + action + _fill_lines(level["post"]) + ["return x"]
    kind = kind or level["kind"]
    if kind == "classbody":
        # the statements run in the body of a class statement (CPython: a frame named after the class)
        return ([f"def c18_f{idx}(x):", "    w = 4", f"    class C18B{idx}:", "        x = 1"] + _indent(body[:-1], 8)
                + ["        def c18_m(self):", "            pass", "    return x"])
    if kind == "compiled" and not level.get("inner"):
        return ["@pyscript_compile", f"def c18_f{idx}(x):"] + _indent(body, 4)
    if kind == "compiled":
        call = _apply_expr_site(level["site"], f"c18_nat{idx}(x)", False)
        return ([f"def c18_f{idx}(x):", "    w = 5", "    @pyscript_compile", f"    def c18_nat{idx}(x):"]
                + _indent(body, 8) + _indent(call, 4) + ["    return x"])
    if kind == "lambda" and not level.get("inner"):
        return _lambda_lines(level, f"c18_f{idx}", lam_expr)
    if kind == "lambda":
        call = _apply_expr_site(level["site"], f"c18_lam{idx}(x)", False)
        return ([f"def c18_f{idx}(x):"] + _indent(_fill_lines(level["pre"]), 4)
                + _indent(_lambda_lines(level, f"c18_lam{idx}", lam_expr), 4) + _indent(call, 4)
                + _indent(_fill_lines(level["post"]), 4) + ["    return x"])
    if kind == "method":
        return ([f"class C18K{idx}:", "    def __init__(self, b):", "        self.b = b", "",
                 "    def run(self, x):"] + _indent(body, 8))
    if kind == "deco":
        return ([f"def c18_deco{idx}(fn):", f"    def c18_wrap{idx}(*args, **kwargs):", "        w = 1",
                 "        return fn(*args, **kwargs)", f"    return c18_wrap{idx}", "", f"@c18_deco{idx}",
                 f"def c18_f{idx}(x):"] + _indent(body, 4))
    if kind == "closure":
        return ([f"def c18_f{idx}(x):", f"    def c18_in{idx}(x):"] + _indent(body, 8)
                + ["    w = 2", f"    return c18_in{idx}(x)"])
    if kind == "recurse":
        return ([f"def c18_f{idx}(x, n=1):", "    if n > 0:", f"        return c18_f{idx}(x, n - 1)"]
                + _indent(body, 4))
    return [f"def c18_f{idx}(x):"] + _indent(body, 4)


CLASS_DEFS = ["class C18Error(Exception):", "    pass", "", "class C18KeyError(KeyError):", "    pass", "",
              "class C18Unrelated(Exception):", "    pass", "", "def c18_thrower(x):", "    w = 3",
              "    return {}['c18 deep']", ""]


def _witness_src(kind: str, tag: str) -> list:
    if kind == "state":
        dec = f"@state_trigger(\"pyscript.c18w_{tag}\")"
        name = f"c18_wit_{tag}"
    elif kind == "service":
        dec = "@service"
        name = f"c18_wsvc_{tag}"
    else:
        dec = f"@event_trigger(\"c18_wit_{tag}\")"
        name = f"c18_wit_{tag}"
    return [dec, f"def {name}(**kw):", f"    sim.mark(\"wit\", \"{tag}\")", ""]


def _entry_name(entry: str) -> str:
    if entry in EXPR_ENTRIES:
        return "c18_helper"
    if entry == "done_cb":
        return "c18_cb"
    if entry == "task_create":
        return "c18_task"
    if entry == "service":
        return "c18_svc"
    return "c18_entry"


def render(scn: dict) -> dict:
    spec = scn["spec"]
    entry = spec["entry"]
    levels = spec["levels"]
    fault = spec["fault"]
    n = len(levels)
    toplevel_entry = entry in LOAD_ENTRIES
    # ---- actions per frame (frame -1 = entry frame)
    def action_for(frame_idx: int, in_mod: bool, toplevel: bool) -> list:
        nxt = frame_idx + 1
        if nxt >= n:
            return _fault_lines(fault, toplevel)
        lvl = levels[nxt]
        prefix = ""
        if lvl["mod"] and not in_mod and spec["import"] == "import":
            prefix = f"{MOD}."
        site = spec["entry_frame"]["site"] if frame_idx < 0 else levels[frame_idx]["site"]
        return _apply_expr_site(site, _call_expr(lvl, nxt, prefix), toplevel)

    main_defs: list[list] = []
    mod_defs: list[list] = []
    lam_expr = FAULT_EXPR[fault["kind"]].replace("{x}", "v") if fault["kind"] in FAULT_EXPR else "v"
    for idx, lvl in enumerate(levels):
        kind = _eff_kind(spec, idx)
        src = _level_def(lvl, idx, action_for(idx, lvl["mod"], "class" if kind == "classbody" else False), kind, lam_expr) + [""]
        (mod_defs if lvl["mod"] else main_defs).append(src)
    order_rng = random.Random(spec.get("order", 0))
    order_rng.shuffle(main_defs)
    order_rng.shuffle(mod_defs)
    uses_mod = entry == "load_import" or any(lvl["mod"] for lvl in levels)
    first_mod = next((i for i, lvl in enumerate(levels) if lvl["mod"]), None)

    eframe = spec["entry_frame"]
    direct = bool(spec.get("direct")) and entry in EXPR_ENTRIES
    entry_in_mod = entry == "load_import"
    nap_lines = [f"task.sleep({spec['nap']})"] if spec.get("nap") else []
    ebody = (_fill_lines(eframe["pre"]) + ["sim.mark(\"pre\")"] + nap_lines
             + action_for(-1, entry_in_mod, toplevel_entry) + _fill_lines(eframe["post"]))
    # ---- main file
    main = ["# c18 generated"] + [""] * spec.get("pad", 0)
    if uses_mod:
        if entry == "load_import" or spec["import"] == "import" or first_mod is None:
            main.append(f"import {MOD}")
        else:
            main.append(f"from {MOD} import {_export_name(levels[first_mod], first_mod)}")
        main.append("")
    main += CLASS_DEFS
    wit_same = _witness_src(spec["wit_same"]["kind"], "same")
    if spec["wit_same"]["pos"] == "before":
        main += wit_same
    for src in main_defs:
        main += src
    if entry == "load_import":
        pass
    elif entry == "load":
        main += ["x = 1"] + ebody + [""]
    elif direct:
        expr = _direct_expr(spec)
        main += ["def c18_pre():", "    sim.mark(\"pre\")", "    return True", ""]
        main += _entry_decorators(entry, f"c18_pre() and {expr}")
        main += ["def c18_entry(**kw):", "    sim.mark(\"body\")", ""]
    elif entry in EXPR_ENTRIES:
        main += ["def c18_helper(x):"] + _indent(ebody + ["return True"], 4) + [""]
        main += _entry_decorators(entry, "c18_helper(1)")
        main += ["def c18_entry(**kw):", "    sim.mark(\"body\")", ""]
    elif entry in ("done_cb", "task_create"):
        name = _entry_name(entry)
        main += [f"def {name}(x):"] + _indent(ebody + ["return x"], 4) + [""]
        if entry == "done_cb":
            main += ["def c18_cb_ok(x):", "    sim.mark(\"cb_ok\")", "", "def c18_sleeper():", "    task.sleep(0.05)", ""]
            main += [f"@event_trigger(\"{FAULT_EVENT}\")", "def c18_entry(**kw):"]
            if spec["cb_on"] == "created":
                main += ["    t = task.create(c18_sleeper)"]
            else:
                main += ["    t = task.current_task()"]
            if spec.get("cb_sibling") == "before":
                main += ["    task.add_done_callback(t, c18_cb_ok, 1)"]
            main += ["    task.add_done_callback(t, c18_cb, 1)"]
            if spec.get("cb_sibling") == "after":
                main += ["    task.add_done_callback(t, c18_cb_ok, 1)"]
            main += ["    sim.mark(\"entry\")", ""]
        else:
            main += [f"@event_trigger(\"{FAULT_EVENT}\")", "def c18_entry(**kw):", "    t = task.create(c18_task, 1)",
                     "    sim.mark(\"entry\")", ""]
    else:
        main += _entry_decorators(entry, None)
        main += [f"def {_entry_name(entry)}(**kw):"] + _indent(["x = 1"] + ebody + ["return x"], 4) + [""]
    if spec["wit_same"]["pos"] != "before":
        main += wit_same
    files = {MAIN_REL: "\n".join(main) + "\n"}
    # ---- module
    if uses_mod:
        mod = ["# c18 generated module", ""] + CLASS_DEFS
        for src in mod_defs:
            mod += src
        if entry == "load_import":
            mod += ["x = 1"] + ebody + [""]
        files[MOD_REL] = "\n".join(mod) + "\n"
    # ---- other files
    for oi, other in enumerate(spec["others"]):
        lines = ["# c18 witness file", ""] + _witness_src(other["kind"], f"o{oi}")
        if other.get("co"):
            if entry in STATE_STIM:
                lines += [f"@state_trigger(\"{STATE_VAR}\")"]
            else:
                lines += [f"@event_trigger(\"{FAULT_EVENT}\")"]
            lines += [f"def c18_co_o{oi}(**kw):", f"    sim.mark(\"co\", \"o{oi}\")", ""]
        files[f"pyscript/c18o{oi}.py"] = "\n".join(lines) + "\n"
    return files


def _entry_decorators(entry: str, expr: str | None) -> list:
    if entry == "state_func":
        return [f"@state_trigger(\"{STATE_VAR} != 'idle'\")"]
    if entry == "event_func":
        return [f"@event_trigger(\"{FAULT_EVENT}\")"]
    if entry == "time_func":
        return ["@time_trigger(\"period(now + 1s, 2s)\")"]
    if entry == "shutdown":
        return ["@time_trigger(\"shutdown\")"]
    if entry == "service":
        return ["@service"]
    if entry == "state_expr":
        return [f"@state_trigger(\"{STATE_VAR} != 'idle' and {expr}\")"]
    if entry == "active_expr":
        return [f"@event_trigger(\"{FAULT_EVENT}\")", f"@state_active(\"{expr}\")"]
    if entry == "event_filter":
        return [f"@event_trigger(\"{FAULT_EVENT}\", \"{expr}\")"]
    raise HarnessError(f"no decorators for entry {entry}")


# ---------------------------------------------------------------------------- shrinking support
def normalize(scn: dict) -> dict | None:
    spec = scn["spec"]
    entry = spec["entry"]
    in_mod = entry == "load_import"
    for lvl in spec["levels"]:
        in_mod = in_mod or bool(lvl.get("mod"))
        lvl["mod"] = in_mod
    if spec.get("direct") and (spec["levels"] or entry not in EXPR_ENTRIES):
        spec["direct"] = False
    if spec.get("direct") and spec["fault"]["kind"] not in FAULT_EXPR:
        return None
    for idx, lvl in enumerate(spec["levels"]):
        lvl["kind"] = _eff_kind(spec, idx)
    ops = []
    for op in scn["ops"]:
        if op["kind"] == "wit" and op["w"] >= len(spec["others"]):
            continue
        ops.append(op)
    scn["ops"] = ops
    if entry not in LOAD_ENTRIES and entry != "shutdown" and not any(op["kind"] == "fault" for op in ops):
        return None
    return scn


def simplify(scn: dict):
    spec = scn["spec"]
    for i, lvl in enumerate(spec["levels"]):
        if lvl["kind"] != "func":
            cand = copy.deepcopy(scn)
            cand["spec"]["levels"][i]["kind"] = "func"
            yield cand
        if lvl["site"] != "assign":
            cand = copy.deepcopy(scn)
            cand["spec"]["levels"][i]["site"] = "assign"
            yield cand
        if lvl.get("lam_form"):
            cand = copy.deepcopy(scn)
            cand["spec"]["levels"][i]["lam_form"] = 0
            yield cand
        if lvl.get("inner"):
            cand = copy.deepcopy(scn)
            cand["spec"]["levels"][i]["inner"] = False
            yield cand
        if lvl["mod"] and (i == 0 or not spec["levels"][i - 1]["mod"]) and spec["entry"] != "load_import":
            cand = copy.deepcopy(scn)
            for later in cand["spec"]["levels"]:
                later["mod"] = False
            yield cand
    if spec["entry_frame"]["site"] != "assign":
        cand = copy.deepcopy(scn)
        cand["spec"]["entry_frame"]["site"] = "assign"
        yield cand
    fault = spec["fault"]
    if fault["site"] not in ("assign", "plain"):
        cand = copy.deepcopy(scn)
        cand["spec"]["fault"]["site"] = "assign" if fault["kind"] in FAULT_EXPR else "plain"
        yield cand
    if fault["kind"] not in ("zerodiv", "raise_builtin") and fault["kind"] not in CHAINED_FAULTS | CONTEXT_FAULTS:
        cand = copy.deepcopy(scn)
        cand["spec"]["fault"].update({"kind": "zerodiv", "site": "assign"})
        yield cand
    if spec.get("pad"):
        cand = copy.deepcopy(scn)
        cand["spec"]["pad"] = 0
        yield cand
    if spec.get("nap"):
        cand = copy.deepcopy(scn)
        cand["spec"]["nap"] = 0
        yield cand
    for i, op in enumerate(scn["ops"]):
        if op.get("reload_after"):
            cand = copy.deepcopy(scn)
            cand["ops"][i].pop("reload_after")
            yield cand
    if spec.get("cb_sibling") and spec["entry"] == "done_cb":
        cand = copy.deepcopy(scn)
        cand["spec"]["cb_sibling"] = None
        yield cand
    for key in ("wit_same",):
        if spec[key]["kind"] != "event":
            cand = copy.deepcopy(scn)
            cand["spec"][key]["kind"] = "event"
            yield cand
    for oi, other in enumerate(spec["others"]):
        if other["kind"] != "event" or other.get("co"):
            cand = copy.deepcopy(scn)
            cand["spec"]["others"][oi].update({"kind": "event", "co": False})
            yield cand
    for i, op in enumerate(scn["ops"]):
        if op.get("passes") or op.get("dt", 0.25) != 0.25:
            cand = copy.deepcopy(scn)
            cand["ops"][i].pop("passes", None)
            cand["ops"][i]["dt"] = 0.25
            yield cand
    for key, val in (("timer_late_ms", 0.0), ("drift", 0.0), ("cost_us", 50), ("exec_latency_ms", [0.0, 0.0]),
                     ("tz", "UTC")):
        if scn["cfg"].get(key) != val:
            cand = copy.deepcopy(scn)
            cand["cfg"][key] = val
            yield cand


# ---------------------------------------------------------------------------- native reference
class _Stub:
    """Stand-in for pyscript-only namespaces (sim, task, log, ...) in the native run."""

    def __getattr__(self, name):
        return lambda *a, **k: None


def _noop_decorator_factory(*_a, **_k):
    return lambda fn: fn


def _chain_sections(exc: BaseException, names: set[str]) -> list[dict]:
    """Exceptions of a cause/context chain, earliest first, the way ``traceback`` prints them."""
    out = []
    seen = set()  # identities within this call only; never reaches the trace
    cur: BaseException | None = exc
    link = "main"
    while cur is not None:
        seen.add(id(cur))
        frames = [(os.path.basename(f.filename), f.name, f.lineno)
                  for f in traceback.extract_tb(cur.__traceback__) if f.filename in names]
        out.append({"type": type(cur).__name__, "msg": str(cur), "frames": frames, "link": link})
        # traceback.TracebackException: a cause / context that was already printed is not printed again; the
        # context is considered only when no cause is printed and it is not suppressed
        cause = cur.__cause__ if cur.__cause__ is not None and id(cur.__cause__) not in seen else None
        if cause is not None:
            cur, link = cause, "cause"
        elif (cur.__context__ is not None and not cur.__suppress_context__
              and id(cur.__context__) not in seen):
            cur, link = cur.__context__, "context"
        else:
            cur = None
    # out[i]["link"] says how out[i] hangs below out[i-1]; re-express as "how this section is followed"
    out.reverse()
    return out


def native_reference(files: dict, spec: dict) -> list[dict]:
    """Run the rendered source with CPython; return the chain sections of the exception raised."""
    names = set(files)
    mod_cache: dict = {}

    def make_globals(name: str) -> dict:
        glob = {
            "__name__": name,
            "sim": _Stub(), "task": _Stub(), "log": _Stub(), "pyscript": _Stub(), "state": _Stub(),
            "service": lambda fn: fn, "pyscript_compile": lambda fn: fn,
        }
        for dec in ("state_trigger", "event_trigger", "time_trigger", "state_active", "time_active",
                    "mqtt_trigger", "webhook_trigger", "task_unique"):
            glob[dec] = _noop_decorator_factory
        bltn = dict(builtins.__dict__)
        bltn["__import__"] = fake_import
        glob["__builtins__"] = bltn
        return glob

    def fake_import(name, globals=None, locals=None, fromlist=(), level=0):  # pylint: disable=redefined-builtin
        if name != MOD:
            return builtins.__import__(name, globals, locals, fromlist, level)
        if MOD in mod_cache:
            return mod_cache[MOD]
        module = types.ModuleType(MOD)
        module.__dict__.update(make_globals(MOD))
        code = compile(files[MOD_REL], MOD_REL, "exec")
        exec(code, module.__dict__)  # pylint: disable=exec-used
        mod_cache[MOD] = module
        return module

    entry = spec["entry"]
    glob = make_globals("__c18_main__")
    raised: BaseException | None = None
    main_code = compile(files[MAIN_REL], MAIN_REL, "exec")
    if MOD_REL in files:
        compile(files[MOD_REL], MOD_REL, "exec")  # a syntax error in generated code is a harness problem
    try:
        exec(main_code, glob)  # pylint: disable=exec-used
        if entry in LOAD_ENTRIES:
            raise HarnessError("native run: load-time fault did not raise")
    except HarnessError:
        raise
    except Exception as exc:  # pylint: disable=broad-except
        if entry not in LOAD_ENTRIES:
            raise HarnessError(f"native run: generated file does not load: {exc!r}") from exc
        raised = exc
    if raised is None:
        direct_code = None
        if spec.get("direct") and entry in EXPR_ENTRIES:
            direct_code = compile(_direct_expr(spec), "<c18 expr>", "eval")
        try:
            if direct_code is not None:
                eval(direct_code, glob)  # pylint: disable=eval-used
            elif entry in EXPR_ENTRIES or entry in ("done_cb", "task_create"):
                glob[_entry_name(entry)](1)
            else:
                glob[_entry_name(entry)]()
            raise HarnessError("native run: fault did not raise")
        except HarnessError:
            raise
        except Exception as exc:  # pylint: disable=broad-except
            raised = exc
    return _chain_sections(raised, names)


# ---------------------------------------------------------------------------- log record parsing
_CAUSE = traceback._cause_message  # pylint: disable=protected-access
_CONTEXT = traceback._context_message  # pylint: disable=protected-access
_FRAME_RE = re.compile(r'^  File "([^"]+)", line (\d+), in (.*)$', re.M)
_EXPR_FRAME_RE = re.compile(r" @\w+\(\)$")
_STDLIB = tuple({os.path.realpath(p) for p in (sys.prefix, sys.base_prefix, os.path.dirname(os.__file__))})


def parse_record(msg: str, wdir: str) -> list[dict]:
    """Split a logged traceback into chain sections (earliest first) with their script frames."""
    parts = re.split("(" + re.escape(_CAUSE) + "|" + re.escape(_CONTEXT) + ")", msg)
    sections = []
    link = None
    for part in parts:
        if part == _CAUSE:
            link = "cause"
            continue
        if part == _CONTEXT:
            link = "context"
            continue
        frames = []
        for path, line, func in _FRAME_RE.findall(part):
            norm = path.replace("\\", "/")
            if "/custom_components/pyscript/" in norm:
                continue
            if norm.startswith("/") and not norm.startswith(wdir) and os.path.realpath(norm).startswith(_STDLIB):
                continue
            frames.append((os.path.basename(norm), func.strip(), int(line)))
        sections.append({"frames": frames, "text": part, "prev_link": link})
        link = None
    # convert "how this section follows the previous" into "how this section hangs below the next"
    out = []
    for i, sec in enumerate(sections):
        nxt = sections[i + 1]["prev_link"] if i + 1 < len(sections) else "main"
        out.append({"frames": sec["frames"], "text": sec["text"], "link": nxt})
    return out


_STOPITER_WRAP = "RuntimeError: coroutine raised StopIteration"
_STOPITER_HEAD = re.compile(r"^StopIteration(: .*)?$", re.M)


def fold_stop_iteration(secs: list[dict]) -> tuple[list[dict], int]:
    """A StopIteration section that is the direct cause of 'RuntimeError: coroutine raised StopIteration' is what
    CPython makes of a StopIteration leaving a coroutine (all pyscript functions are coroutines): the pair counts
    as one section of the StopIteration with the script frames of both (outer frames first)."""
    out: list[dict] = []
    folded = 0
    for sec in secs:
        prev = out[-1] if out else None
        if (prev is not None and prev["link"] == "cause" and _STOPITER_WRAP in sec["text"]
                and _STOPITER_HEAD.search(prev["text"]) and not prev.get("folded")):
            out[-1] = {"frames": list(sec["frames"]) + list(prev["frames"]), "text": prev["text"],
                       "link": sec["link"], "folded": True}
            folded += 1
        else:
            out.append(sec)
    return out, folded


def _sig_text(sec: dict) -> str:
    return f"{sec['type']}: {sec['msg']}" if sec["msg"] else sec["type"]


def _is_report(rec: dict, main_sec: dict) -> bool:
    if rec["level"] not in ("ERROR", "CRITICAL"):
        return False
    text = rec["msg"] + ("\n" + rec["exc"] if rec.get("exc") else "")
    if main_sec["msg"]:
        return _sig_text(main_sec) in text
    return re.search(r"(^|[\s.])" + re.escape(main_sec["type"]) + r"\s*$", text, re.M) is not None


def _logger_kind(name: str) -> tuple[str, str]:
    """('script', tree) for a script logger, ('other', name) otherwise."""
    base = "custom_components.pyscript."
    if name.startswith(base):
        rest = name[len(base):].split(".")
        if len(rest) >= 2 and rest[0] in ("file", "modules", "apps", "scripts"):
            return "script", f"{rest[0]}.{rest[1]}"
    return "other", name


# ---------------------------------------------------------------------------- frame comparison
def _role(frame: tuple, spec: dict) -> str:
    name = frame[1]
    if name == "<module>":
        return "toplevel"
    if name in ("c18_entry", "c18_helper", "c18_cb", "c18_task", "c18_svc"):
        return "entry"
    if name == "c18_thrower":
        return "thrower"
    if name == "run":
        return "method"
    if name == "<lambda>":
        return "lambda"
    if re.match(r"C18B\d+$", name):
        return "class_body"
    m = re.match(r"c18_(wrap|in|f|nat)(\d+)$", name)
    if m:
        idx = int(m.group(2))
        kind = _eff_kind(spec, idx) if idx < len(spec["levels"]) else "func"
        if m.group(1) == "wrap":
            return "decorator_wrapper"
        if m.group(1) == "in":
            return "closure_inner"
        if m.group(1) == "nat":
            return "inner_compiled_function"
        return {"deco": "decorated_function", "closure": "closure_outer", "recurse": "recursive_function",
                "classbody": "class_body_outer", "compiled": "compiled_function",
                "lambda": "lambda_outer"}.get(kind, "function")
    return "other"


def _same(nat: tuple, pys: tuple) -> bool:
    if nat[0] != pys[0] or nat[2] != pys[2]:
        return False
    return nat[1] == "<module>" or nat[1] == pys[1]


def _seq_equal(nat: list, pys: list) -> bool:
    return len(nat) == len(pys) and all(_same(a, b) for a, b in zip(nat, pys))


def _is_subseq(small: list, big: list, nat_is_big: bool) -> bool:
    it = iter(big)
    for item in small:
        for cand in it:
            if (_same(cand, item) if nat_is_big else _same(item, cand)):
                break
        else:
            return False
    return True


def _merge_same_name(nat: list, spec: dict, inner_native: bool = False) -> list:
    """Explanatory alternative: the wrapper takes the decorated function's name and adjacent frames with the
    same (file, name) collapse into the deeper one."""
    renamed = []
    for fr in nat:
        m = re.match(r"c18_wrap(\d+)$", fr[1])
        renamed.append((fr[0], f"c18_f{m.group(1)}", fr[2]) if m else fr)
    out: list = []
    out_native: list = []
    for fr in renamed:
        # (frames of natively compiled code are Python's own traceback entries: the interpreter's formatter does not
        # build them, so the recorded merging does not touch two of them in a row - eg 'raise err' and the line that
        # raised first inside one @pyscript_compile function)
        # (only for functions compiled at file level: a @pyscript_compile function defined inside a function is
        # native the first time its enclosing function runs and interpreted afterwards - ast_functiondef rewrites
        # the decorator list of the AST node - so its frames can be the interpreter's)
        # (``inner_native`` = the variant for the first run of the enclosing function, while it still is native)
        native = _role(fr, spec) in (("compiled_function", "inner_compiled_function") if inner_native
                                     else ("compiled_function",))
        if out and out[-1][0] == fr[0] and out[-1][1] == fr[1] and not (native and out_native[-1]):
            out[-1] = fr
            out_native[-1] = native
        else:
            out.append(fr)
            out_native.append(native)
    return out


_CTX_FILE = "<name or file of the running evaluation context>"
_ANY_NAME = "<any name>"


def _alt_class_body(nat: list, spec: dict) -> list:
    """Explanatory alternative: the statements of a class body are attributed to the frame that executes the class
    statement (no frame named after the class)."""
    out: list = []
    for fr in nat:
        if out and _role(fr, spec) == "class_body":
            out[-1] = (out[-1][0], out[-1][1], fr[2])
        else:
            out.append(fr)
    return out


def _alt_lambda_name(nat: list, spec: dict) -> list:
    """Explanatory alternative: the frame of a lambda carries some other name than '<lambda>'."""
    return [(fr[0], _ANY_NAME, fr[2]) if fr[1] == "<lambda>" else fr for fr in nat]


def _alt_native_file(nat: list, spec: dict) -> list:
    """Explanatory alternative: a natively compiled function defined while a function runs carries the name (or
    file) of the evaluation context that runs it instead of the path of the file it is written in."""
    out = []
    for fr in nat:
        role = _role(fr, spec)
        inner_lambda = role == "lambda" and any(_eff_kind(spec, i) == "lambda" and lvl.get("inner")
                                               for i, lvl in enumerate(spec["levels"]))
        out.append((_CTX_FILE, fr[1], fr[2]) if role == "inner_compiled_function" or inner_lambda else fr)
    return out


_ALTERNATIVES = [
    ("class_body_attributed_to_enclosing_frame", _alt_class_body),
    ("inner_native_function_file_taken_from_running_context", _alt_native_file),  # (looks at frame names: before the next)
    ("lambda_frame_not_named_lambda", _alt_lambda_name),
]


def compare_frames(nat: list, pys: list, spec: dict, section: str) -> dict | None:
    """None when equal; otherwise {'diff','via','why'} describing the first difference."""
    if _seq_equal(nat, pys):
        return None
    why = "unexplained"
    if nat and not pys:
        diff, via = "no_script_frames", _role(nat[-1], spec)
    elif len(pys) < len(nat) and _is_subseq(pys, nat, True):
        diff = "missing_frame"
        k = 0
        while k < len(pys) and _same(nat[k], pys[k]):
            k += 1
        via = _role(nat[k], spec)
    elif len(pys) > len(nat) and _is_subseq(nat, pys, False):
        diff = "extra_frame"
        via = "n/a"
    else:
        diff, via = "frames_differ", "n/a"
        for a, b in zip(nat, pys):
            if not _same(a, b):
                via = _role(a, spec)
                if a[0] != b[0]:
                    diff = "wrong_file"
                elif a[1] != "<module>" and a[1] != b[1]:
                    diff = "wrong_function"
                else:
                    diff = "wrong_line"
                break
    # explanatory labels: alternative semantics that reproduce what was logged (never excuse a mismatch)
    if diff == "no_script_frames":
        return {"diff": "*", "via": "*", "why": "no_script_frames"}
    merged = _merge_same_name(nat, spec)
    dropped = "n/a"
    if merged != nat:
        j = 0
        while j < len(merged) and j < len(nat) and merged[j][2] == nat[j][2] and merged[j][0] == nat[j][0]:
            j += 1
        dropped = _role(nat[min(j, len(nat) - 1)], spec)
        if dropped in ("entry", "function", "method", "closure_outer", "closure_inner", "toplevel", "thrower"):
            dropped = "same_name_adjacent_frames"

    def eq(ref: list, relax_first: bool, relax_modfile: bool) -> bool:
        if len(ref) != len(pys):
            return False
        for i, (a, b) in enumerate(zip(ref, pys)):
            if a[2] != b[2]:
                return False
            first = relax_first and i == 0
            modlevel = a[1] == "<module>"
            if not (a[1] == b[1] or a[1] == _ANY_NAME or modlevel or first):
                return False
            # (the running evaluation context: a trigger/task context has a name only, a file-level one the file
            # of the first frame)
            file_ok = a[0] == b[0] or (a[0] == _CTX_FILE and (not b[0].endswith(".py") or b[0] == pys[0][0]))
            if not (file_ok or first or (relax_modfile and modlevel)):
                return False
        return True

    # candidate explanations, smallest first: subsets of the alternatives above (applied in that order), then the
    # merge of same-named adjacent frames, each under the relaxations of the comparison
    subsets: list = [[]]
    for item in _ALTERNATIVES:
        subsets += [sub + [item] for sub in subsets]
    subsets.sort(key=len)  # stable: order of _ALTERNATIVES within a size
    labels = []
    first_file_wrong = False
    for subset in subsets:
        base = nat
        applicable = True
        for _label, fn in subset:
            changed = fn(base, spec)
            if changed == base:
                applicable = False
                break
            base = changed
        if not applicable:
            continue
        for use_merged in (False, True, "inner_native"):
            ref = _merge_same_name(base, spec, use_merged == "inner_native") if use_merged else base
            if use_merged and ref == base:
                continue
            for relax_first, relax_modfile in ((False, False), (section != "main", False), (False, True)):
                if eq(ref, relax_first, relax_modfile):
                    labels.extend(label for label, _fn in subset)
                    if use_merged:
                        labels.append("adjacent_same_name_frames_merged")
                    if relax_first:
                        labels.append("chained_section_first_frame_named_by_context")
                        first_file_wrong = bool(ref) and ref[0][0] != pys[0][0]
                    if relax_modfile:
                        labels.append("module_level_frame_attributed_to_importing_file")
                    break
            if labels:
                break
        if labels:
            break
    if labels:
        via = dropped if "adjacent_same_name_frames_merged" in labels else "*"
        if first_file_wrong:
            via = (via + "," if via != "*" else "") + "file_of_context_too"
        return {"diff": "*", "via": via, "why": "+".join(labels)}
    return {"diff": diff, "via": via, "why": why}


# ---------------------------------------------------------------------------- run
def warmup() -> None:
    rng = random.Random(18)
    for _ in range(2):
        scn = gen(rng, "quick")
        try:
            run(scn)
        except Exception:  # pylint: disable=broad-except
            pass


def _freeze_heap() -> None:
    """World.run ends with a full gc.collect(); with Home Assistant imported that scan costs ~0.18 s per run,
    and objects that survive a run (a few hundred per run stay referenced from HA/pyscript globals) make it
    slower run by run.  After each run whatever survived the collection is moved to the permanent generation,
    so the next collection only looks at what the next run allocates.  No effect on behaviour: the collector
    is disabled while a world runs and the garbage of a run is still collected at its end."""
    gc.freeze()


def _scrub_trace(w: World) -> None:
    """Log lines recorded in the trace may contain the per-process temp dir."""
    if not w.dir:
        return
    text = json.dumps(w.trace, default=repr)
    if w.dir in text:
        w.trace = json.loads(text.replace(w.dir, "<cfgdir>"))


def run(scn: dict) -> dict:
    spec = scn["spec"]
    entry = spec["entry"]
    files = render(scn)
    native = native_reference(files, spec)
    w = World(scn["cfg"], files)
    obs: dict = {"stimuli": 0, "call_raised": [], "contexts": None, "wit_sent": {}, "setup_errors": None,
                 "t_end": None, "reloads": 0}

    async def send_witness(w: World, tag: str, kind: str, seq: int) -> None:
        obs["wit_sent"][tag] = obs["wit_sent"].get(tag, 0) + 1
        if kind == "state":
            w.set_state(f"pyscript.c18w_{tag}", f"w{seq}")
        elif kind == "service":
            try:
                await w.call_service("pyscript", f"c18_wsvc_{tag}", {}, blocking=True)
            except Exception as exc:  # pylint: disable=broad-except
                obs["call_raised"].append(("witness", tag, repr(exc)[:160], w.vts()))
        else:
            w.fire(f"c18_wit_{tag}", {"n": seq})

    async def driver(w: World):
        # triggers start on EVENT_HOMEASSISTANT_STARTED through executor jobs (seeded latency): wait them out,
        # stimuli delivered while pyscript is still starting are not this property's subject
        await w.settle(0.5)
        obs["setup_errors"] = [r for r in w.logs if r["level"] in ("ERROR", "CRITICAL")]
        obs["n_setup_logs"] = len(w.logs)
        seq = 0
        k_time = 0
        last_burst = False
        for op in scn["ops"]:
            seq += 1
            if op["kind"] == "fault" and entry == "time_func":
                k_time += 1
                target = w.vt_setup_done + (1.0 + 2.0 * (k_time - 1) + 0.5) / (1.0 + w.cfg["drift"])
                if target > w.loop.vt:
                    await w.sleep(target - w.loop.vt)
                continue
            await wait_op(w, op)
            is_burst = not (op.get("dt", 0.0) > 0 or op.get("passes", 0) > 0)
            if op["kind"] == "wit":
                if op["w"] < 0:
                    await send_witness(w, "same", spec["wit_same"]["kind"], seq)
                elif op["w"] < len(spec["others"]):
                    await send_witness(w, f"o{op['w']}", spec["others"][op["w"]]["kind"], seq)
                last_burst = False
                continue
            # ---- faulty stimulus
            if is_burst and last_burst:
                w.probe("burst_occurrences")
            last_burst = True
            if entry in STATE_STIM:
                obs["stimuli"] += 1
                w.set_state(STATE_VAR, f"o{seq}")
            elif entry in EVENT_STIM:
                obs["stimuli"] += 1
                w.fire(FAULT_EVENT, {"k": seq})
            elif entry == "service":
                obs["stimuli"] += 1
                try:
                    await w.call_service("pyscript", "c18_svc", {}, blocking=bool(op.get("blocking", True)))
                except Exception as exc:  # pylint: disable=broad-except
                    obs["call_raised"].append(("fault", "c18_svc", repr(exc)[:160], w.vts()))
            if op.get("reload_after") and spec.get("nap") and entry in ("service", "event_func", "state_func"):
                await w.sleep(op["reload_after"])
                w.probe("script_reloaded_while_faulty_run_suspended")
                await w.reload(f"file.{MAIN}")
                await w.settle(spec["nap"] + 0.2)
            elif entry in LOAD_ENTRIES:
                obs["stimuli"] += 1
                obs["reloads"] += 1
                await w.settle()
                await w.reload()
                await w.settle()
        await w.settle(1.0)
        if entry == "time_func":
            # do not stop within reach of a period boundary
            rel = (w.loop.vt - w.vt_setup_done) * (1.0 + w.cfg["drift"])
            frac = (rel - 1.0) % 2.0
            if frac < 0.3 or frac > 1.7:
                await w.settle(0.6)
            rel = (w.loop.vt - w.vt_setup_done) * (1.0 + w.cfg["drift"])
            obs["stimuli"] = int((rel - 0.3 - 1.0) // 2.0) + 1 if rel >= 1.3 else 0
        obs["contexts"] = pyscript_leftovers()["contexts"]
        obs["t_end"] = w.vts()
        obs["n_logs_before_stop"] = len(w.logs)

    try:
        w.run(driver)
    finally:
        _freeze_heap()
    _scrub_trace(w)
    violations, nontrivial, extra = oracle(w, scn, files, native, obs)
    return base_result(w, violations, nontrivial, extra)


# ---------------------------------------------------------------------------- oracle
def oracle(w: World, scn: dict, files: dict, native: list, obs: dict):
    spec = scn["spec"]
    entry = spec["entry"]
    sub = "legacy" if w.cfg["legacy"] else "new"
    base_sig = {"subsystem": sub, "entry": entry}
    violations: list = []
    main_sec = native[-1]
    wdir = w.dir or "/nonexistent"
    is_load = entry in LOAD_ENTRIES

    def viol(cls: str, sig: dict, detail: str, t: float) -> None:
        violations.append({"class": cls, "sig": sig, "detail": detail.replace(wdir, "<cfgdir>"), "t": round(t, 6)})

    # ---- set-up sanity: nothing but the expected load-time reports may be an ERROR before the first stimulus
    for rec in obs["setup_errors"] or []:
        if is_load and (_is_report(rec, main_sec) or rec["msg"].startswith("Failed to load")
                        or rec["msg"].startswith("module_import: failed to load module")
                        or rec["msg"].startswith("Source code is unavailable for")
                        or rec["msg"].startswith("Error while formatting ast exception")):
            continue  # (the last one: pyscript's own failure to format the report - judged as not_logged below)
        raise HarnessError(f"unexpected ERROR during set-up: {rec['logger']}: {rec['msg'][:400]}")
    expected_ctx = {f"file.c18o{i}" for i in range(len(spec["others"]))}
    uses_mod = MOD_REL in files
    if not is_load:
        expected_ctx.add(f"file.{MAIN}")
        if uses_mod:
            expected_ctx.add(f"modules.{MOD}")
    elif entry == "load" and uses_mod:
        expected_ctx.add(f"modules.{MOD}")
    got_ctx = set(obs["contexts"] or [])
    if not is_load and got_ctx != expected_ctx:
        raise HarnessError(f"contexts {sorted(got_ctx)} != expected {sorted(expected_ctx)}")

    # ---- occurrences
    pre = [m for m in w.marks if m["args"] == ["pre"]]
    n_pre = len(pre)
    stimuli = obs["stimuli"] + (1 if is_load or entry == "shutdown" else 0)
    if n_pre > stimuli and entry != "time_func":  # extra firings of a period are C06/C07's subject
        raise HarnessError(f"{n_pre} occurrences for {stimuli} stimuli (entry {entry})")
    if n_pre < stimuli:
        viol("C18.trigger_dead", dict(base_sig, served=min(n_pre, 2)),
             f"{stimuli} faulty stimuli delivered, user code reached {n_pre} times", pre[-1]["t"] if pre else 0.0)
    if n_pre >= 2:
        w.probe("next_occurrence_served")
    if is_load and obs["reloads"] and n_pre >= 2:
        w.probe("reload_refails")

    # ---- reports
    reports = [r for r in w.logs if _is_report(r, main_sec)]
    script_reports = []
    mod_reports = []
    seen_wrong: set = set()
    for rec in reports:
        kind, tree = _logger_kind(rec["logger"])
        t_rel = rec["vt"] - w.clock.vt0
        if kind != "script":
            script_reports.append(rec)  # it is a report, only in the wrong place
            if tree in seen_wrong:
                continue
            seen_wrong.add(tree)
            viol("C18.wrong_logger", dict(base_sig, entry_class=ENTRY_CLASS[entry], logger=tree),
                 f"{_sig_text(main_sec)} reported on logger {rec['logger']} instead of the script's logger: "
                 f"{rec['msg'][:300]!r}", t_rel)
        elif entry == "load_import" and tree == f"modules.{MOD}":
            mod_reports.append(rec)
        else:
            script_reports.append(rec)
            w.probe("report_on_script_logger")
    t_last = (pre[-1]["t"] if pre else 0.0)
    if len(script_reports) < n_pre:
        # explanatory label: what pyscript logged instead (its own failure while formatting the report)
        why = "unexplained"
        for rec in w.logs:
            if (rec["level"] == "ERROR" and _logger_kind(rec["logger"])[0] == "other"
                    and rec["msg"].startswith("Error while formatting ast exception")):
                why = "formatter_raised_" + str(rec.get("exc") or "?").split(":", 1)[0]
                break
        viol("C18.not_logged", dict(base_sig, entry_class=ENTRY_CLASS[entry], why=why),
             f"{n_pre} occurrences of {_sig_text(main_sec)} but {len(script_reports)} ERROR records carry it; "
             f"other ERROR records: {[(r['logger'], r['msg'][:120]) for r in w.logs if r['level'] == 'ERROR' and r not in reports][:4]}",
             t_last)
    if len(script_reports) > n_pre or len(mod_reports) > n_pre:
        viol("C18.logged_twice", dict(base_sig, entry_class=ENTRY_CLASS[entry]),
             f"{n_pre} occurrences of {_sig_text(main_sec)} but {len(script_reports)} reports"
             f" (+{len(mod_reports)} on the module's logger): {[r['logger'] for r in reports]}", t_last)

    # ---- traceback attribution (each distinct mismatch once per run)
    seen_tb = set()
    n_equal = 0
    for rec in script_reports:
        t_rel = rec["vt"] - w.clock.vt0
        secs, n_folded = parse_record(rec["msg"], wdir), 0
        if any(sec["type"] == "StopIteration" for sec in native):
            secs, n_folded = fold_stop_iteration(secs)
        if n_folded:
            w.probe("stop_iteration_wrapper_folded")
        problems = []
        if len(secs) != len(native):
            problems.append(("main", {"diff": "chain_length", "via": "n/a", "why": "unexplained"},
                             f"{len(secs)} chained sections logged, CPython prints {len(native)}"))
        else:
            for nat, pys in zip(native, secs):
                section = "main" if nat is main_sec else nat["link"]
                if nat["link"] != pys["link"]:
                    problems.append((section, {"diff": "chain_link", "via": "n/a", "why": "unexplained"},
                                     f"section linked as {pys['link']} but CPython links it as {nat['link']}"))
                if _sig_text(nat) not in pys["text"]:
                    problems.append((section, {"diff": "type_or_message", "via": "n/a", "why": "unexplained"},
                                     f"section lacks {_sig_text(nat)!r}"))
                pframes = list(pys["frames"])
                if nat is main_sec and entry in EXPR_ENTRIES and pframes and _EXPR_FRAME_RE.search(pframes[0][1]):
                    pframes = pframes[1:]  # synthetic frame of the decorator string: don't-care
                cmp = compare_frames(nat["frames"], pframes, spec, section)
                if cmp is not None:
                    problems.append((section, cmp, f"script frames {pframes} != CPython {nat['frames']}"))
        if not problems:
            n_equal += 1
        for section, cmp, text in problems:
            # the formatter is shared by all entry points: the signature carries the entry class only
            sig = {"subsystem": sub, "entry_class": ENTRY_CLASS[entry], "section": section, "diff": cmp["diff"],
                   "via": cmp["via"], "why": cmp["why"]}
            key = json.dumps(sig, sort_keys=True)
            if key in seen_tb:
                continue
            seen_tb.add(key)
            viol("C18.traceback_frames", sig,
                 f"entry {entry}: {_sig_text(main_sec)} on {rec['logger']}: [{section}] {text}", t_rel)
    if n_equal:
        w.probe("frames_equal_cpython", n_equal)

    # ---- containment
    for item in w.ha_exceptions:
        how = "loop_exception_handler" if item.get("exc") is not None else "ha_error_log"
        viol("C18.escaped_to_ha", dict(base_sig, how=how),
             f"{item.get('message')} {item.get('exc') or ''}"[:300], item.get("vt", 0.0))
    for task in w.tasks:
        # an exception left in a finished task is what asyncio hands to the loop's (= Home Assistant's)
        # exception handler as "Task exception was never retrieved" once the task is destroyed
        if task.done() and not task.cancelled():
            exc = task.exception()
            if exc is not None and not isinstance(exc, HarnessError):
                viol("C18.escaped_to_ha", dict(base_sig, how="task_exception"),
                     f"task {w.label_of(task)} ended with {type(exc).__name__}: {exc}"[:300], t_last)
                break
    for what, name, text, t in obs["call_raised"]:
        if what == "fault":
            viol("C18.escaped_to_ha", dict(base_sig, how="service_call_raised"),
                 f"blocking call of pyscript.{name} raised {text}", t)
        elif not (is_load and name == "same"):  # the service of a file that failed to load must be unknown
            viol("C18.disturbed_other", dict(base_sig, what="witness_service_call_raised"),
                 f"call of witness service {name} raised {text}", t)

    # ---- witnesses
    for tag, sent in sorted(obs["wit_sent"].items()):
        got = sum(1 for m in w.marks if m["args"] == ["wit", tag])
        want = 0 if (is_load and tag == "same") else sent
        if got != want:
            if is_load and tag == "same":
                viol("C18.load_isolation", dict(base_sig, what="function_of_unloaded_file_runs"),
                     f"witness in the file that failed to load ran {got} times", t_last)
            else:
                viol("C18.disturbed_other", dict(base_sig, what="same_file" if tag == "same" else "other_file"),
                     f"witness {tag} ran {got} times for {sent} stimuli", t_last)
    if entry in STATE_STIM or entry in EVENT_STIM:
        for oi, other in enumerate(spec["others"]):
            if other.get("co"):
                got = sum(1 for m in w.marks if m["args"] == ["co", f"o{oi}"])
                if got != obs["stimuli"]:
                    viol("C18.disturbed_other", dict(base_sig, what="co_triggered_other_file"),
                         f"function in another file on the same stimulus ran {got} times for {obs['stimuli']} stimuli",
                         t_last)
    if entry == "done_cb" and spec.get("cb_sibling"):
        w.probe("sibling_done_callback")
        got = sum(1 for m in w.marks if m["args"] == ["cb_ok"])
        if got != n_pre:
            viol("C18.disturbed_other", dict(base_sig, what="sibling_done_callback", order=spec["cb_sibling"]),
                 f"healthy done-callback registered {spec['cb_sibling']} the faulty one on the same task ran {got} "
                 f"times for {n_pre} task completions", t_last)

    # ---- load isolation
    if is_load:
        if got_ctx != expected_ctx:
            extra_ctx = sorted(got_ctx - expected_ctx)
            missing = sorted(expected_ctx - got_ctx)
            viol("C18.load_isolation", dict(base_sig, what="contexts", extra=bool(extra_ctx), missing=bool(missing)),
                 f"contexts after a load-time fault in {MAIN if entry == 'load' else MOD}: unexpected {extra_ctx}, "
                 f"missing {missing}", t_last)

    # ---- reach probes
    probe_entry = {
        "trigger_function": "fault_in_trigger_function", "service_function": "fault_in_service",
        "expression": "fault_in_expression", "done_callback": "fault_in_done_callback",
        "created_task": "fault_in_created_task", "load_time": "fault_at_load_time",
    }[ENTRY_CLASS[entry]]
    if n_pre:
        w.probe(probe_entry)
        if entry == "shutdown":
            w.probe("fault_in_shutdown_trigger")
        if entry == "load_import":
            w.probe("fault_at_import_time")
        if spec.get("direct") and entry in EXPR_ENTRIES:
            w.probe("fault_in_expression_direct")
        levels = spec["levels"]
        fault = spec["fault"]
        if levels and levels[-1]["mod"] and entry != "load_import":
            w.probe("fault_in_imported_module")
        sites = [spec["entry_frame"]["site"]] + [lvl["site"] for lvl in levels[:-1]] if levels else []
        if fault["kind"] in FAULT_EXPR:
            sites = sites + [fault["site"]]
        if any(s in COMP_SITES for s in sites):
            w.probe("fault_in_comprehension")
        if any(s in ML_SITES for s in sites):
            w.probe("multiline_call_site")
        kinds = [lvl["kind"] for lvl in levels]
        if "method" in kinds:
            w.probe("fault_in_method")
        if "deco" in kinds:
            w.probe("fault_through_decorator")
        if "closure" in kinds:
            w.probe("fault_through_closure")
        if "recurse" in kinds:
            w.probe("fault_through_recursion")
        if "classbody" in kinds:
            w.probe("fault_in_class_body")
        if levels and _eff_kind(spec, len(levels) - 1) == "compiled":
            w.probe("fault_in_inner_compiled_function" if levels[-1].get("inner") else "fault_in_compiled_function")
        if levels and _eff_kind(spec, len(levels) - 1) == "lambda":
            w.probe("fault_in_lambda")
        if fault["kind"] in SELF_CAUSE_FAULTS:
            w.probe("exception_is_its_own_cause")
        if fault["kind"] == "raise_cause_cycle":
            w.probe("cause_cycle")
        if any(sec["type"] == "StopIteration" for sec in native):
            w.probe("stop_iteration")
        if len(native) > 1 and any(sec["link"] == "cause" for sec in native):
            w.probe("chained_cause")
        if len(native) > 1 and any(sec["link"] == "context" for sec in native):
            w.probe("implicit_context")
        if fault["kind"] in ML_FAULTS:
            w.probe("multiline_fault_statement")
        if main_sec["type"] in ("C18Error", "C18KeyError"):
            w.probe("user_exception_class")
        if len(main_sec["frames"]) >= 5:
            w.probe("depth5")
    violations.sort(key=lambda v: v.get("t", 0.0))
    extra = {"occurrences": n_pre, "stimuli": stimuli, "reports": len(reports),
             "native_frames": len(main_sec["frames"]), "sections": len(native)}
    return violations, n_pre >= 1, extra
