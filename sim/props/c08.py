"""C08 - event, MQTT and webhook triggers deliver each message exactly once; contexts.

Workload: 1-4 functions with event / MQTT / webhook triggers (shared and distinct event types and
topics, optional filter expressions, several decorators, kwargs=); bodies sleep, call task.executor,
fire an event, set a state and call a recording service.  Stimuli carry unique ids and arrive
back-to-back, a few passes apart or while earlier runs still sleep; some runs are cancelled.

Oracle: per decorator, runs == filter(stimuli) as a sequence (no loss, duplication or reordering),
each run in its own task, kwargs == payload (+ decorator kwargs); everything a run emits carries a
context whose parent is the triggering event's context; event.fire emits exactly its parameters.
"""

from __future__ import annotations

import copy
import json
import random

from ..common import apply_common, base_result, gen_cfg, gen_delay, wait_op
from ..world import World

PROPERTY = "C08"
LEVEL = "exploration"
RULE = (
    "seeded generation of (script with 1-4 functions x 1-3 event/mqtt/webhook trigger decorators with optional "
    "filters, timed sequence of <=20/30 stimuli with unique ids incl. bursts, stalls, cancellations); distinct = "
    "scenario digest; non-trivial = at least two stimuli delivered to one decorator while an earlier run of "
    "that function was still alive"
)
ASSUMPTIONS = [
    "HA core dispatches bus events, MQTT messages (fake broker) and webhooks (HA's real dispatcher) in call order",
    "webhook ids are shared between decorators and functions like event types and topics (pyscript keeps one "
    "Home Assistant registration per id and fans out; the note in the documentation only excludes sharing an id "
    "with a Home Assistant automation)",
    "order is judged per decorator; filters that suspend are not generated",
    "a run cancelled by the harness is exempt from the 'reaches its end' check, nothing else is",
]
TIERS = {
    "quick": {"runs": 2000, "chunk": 75, "max_ops": 20},
    "thorough": {"runs": 50000, "chunk": 250, "max_ops": 30},
}
REACH_PROBES = ["same_type_two_functions", "filter_rejected", "filter_raised", "overlap", "burst3",
                "run_cancelled", "executor_in_body", "ctx_parent_checked"]
SHRINK_LISTS = [["ops"], ["spec", "funcs"], ["spec", "funcs", "*", "decs"], ["spec", "funcs", "*", "body"]]

EVENT_TYPES = ["ev_a", "ev_b", "ev_c"]
TOPICS = ["t/a", "t/b", "t/+/x"]
KINDS = ["a", "b", "7"]


# ------------------------------------------------------------------ filters
def gen_filter(rng: random.Random, kind: str):
    """A filter as a small tree; printed per trigger kind, evaluated on the payload dict."""
    roll = rng.random()
    if roll < 0.45:
        return None
    if roll < 0.65:
        return ["n", rng.choice([">", ">=", "<", "=="]), rng.randint(0, 3)]
    if roll < 0.8:
        return ["kind", rng.choice(["==", "!="]), rng.choice(KINDS)]
    if roll < 0.9:
        return ["intkind", rng.choice([">", "<"]), rng.randint(0, 8)]  # int(kind): raises for 'a'/'b'
    return ["and", ["n", ">=", rng.randint(0, 2)], ["kind", "!=", rng.choice(KINDS)]]


def filter_src(flt, kind: str) -> str:
    def var(name):
        if kind == "event":
            return name
        if kind == "mqtt":
            return f"payload_obj[{name!r}]"
        return f"payload[{name!r}]"

    if flt[0] == "n":
        return f"{var('n')} {flt[1]} {flt[2]}"
    if flt[0] == "kind":
        return f"{var('kind')} {flt[1]} {flt[2]!r}"
    if flt[0] == "intkind":
        return f"int({var('kind')}) {flt[1]} {flt[2]}"
    if flt[0] == "and":
        return f"({filter_src(flt[1], kind)} and {filter_src(flt[2], kind)})"
    raise ValueError(flt)


_REL = {">": lambda a, b: a > b, ">=": lambda a, b: a >= b, "<": lambda a, b: a < b,
        "==": lambda a, b: a == b, "!=": lambda a, b: a != b}


def filter_eval(flt, data: dict) -> tuple[bool, bool]:
    """(passes, raised) - an exception means 'logged, treated as false'."""
    try:
        if flt[0] == "n":
            return bool(_REL[flt[1]](data["n"], flt[2])), False
        if flt[0] == "kind":
            return bool(_REL[flt[1]](data["kind"], flt[2])), False
        if flt[0] == "intkind":
            return bool(_REL[flt[1]](int(data["kind"]), flt[2])), False
        if flt[0] == "and":
            left, r1 = filter_eval(flt[1], data)
            if r1:
                return False, True
            if not left:
                return False, False
            return filter_eval(flt[2], data)
    except (KeyError, ValueError, TypeError):
        return False, True
    raise ValueError(flt)


# ------------------------------------------------------------------ generation
def gen(rng: random.Random, tier: str) -> dict:
    cfg = gen_cfg(rng)
    funcs = []
    hook_n = 0
    for fi in range(rng.randint(1, 4)):
        decs = []
        for di in range(rng.choice([1, 1, 2, 3])):
            kind = rng.choice(["event", "event", "event", "mqtt", "webhook"])
            if kind == "event":
                target = rng.choice(EVENT_TYPES)
            elif kind == "mqtt":
                target = rng.choice(TOPICS)
            else:
                # webhook ids are shared between decorators and functions like event types and topics
                hook_n += 1
                target = rng.choice(["hook1", "hook1", "hook2", f"hook{hook_n + 2}"])
            kw = {"dec": di}
            if rng.random() < 0.15:
                kw["extra"] = rng.choice(["x", 5])
            decs.append({"kind": kind, "target": target, "filter": gen_filter(rng, kind), "kwargs": kw})
        body = []
        if rng.random() < 0.7:
            body.append(["sleep", rng.choice([0.1, 0.6, 2.0])])
        if rng.random() < 0.3:
            body.append(["executor"])
        if rng.random() < 0.6:
            body.append(["fire"])
        if rng.random() < 0.4:
            body.append(["set"])
        if rng.random() < 0.4:
            body.append(["call"])
        rng.shuffle(body)
        funcs.append({"name": f"f{fi}", "decs": decs, "body": body})
    ops = []
    sid = 0
    hooks = [d["target"] for f in funcs for d in f["decs"] if d["kind"] == "webhook"]
    used_ev = [d["target"] for f in funcs for d in f["decs"] if d["kind"] == "event"] or EVENT_TYPES
    for _ in range(rng.randint(3, TIERS[tier]["max_ops"])):
        op = gen_delay(rng, burst_p=0.45)
        roll = rng.random()
        data = {"n": rng.randint(0, 3), "kind": rng.choice(KINDS)}
        if roll < 0.06:
            op.update({"kind": "stall", "s": rng.choice([0.01, 0.3, 1.5])})
        elif roll < 0.12 and sid > 0:
            op.update({"kind": "cancel_run", "sid": rng.randint(1, sid)})
        elif roll < 0.2 and hooks:
            sid += 1
            op.update({"kind": "webhook", "id": rng.choice(hooks), "payload": dict(data, id=sid),
                       "json": True})
        elif roll < 0.35:
            sid += 1
            topic = rng.choice(["t/a", "t/b", "t/q/x", "t/other"])
            op.update({"kind": "mqtt", "topic": topic, "payload": json.dumps(dict(data, id=sid), sort_keys=True)})
        else:
            sid += 1
            etype = rng.choice(used_ev) if rng.random() < 0.75 else rng.choice(EVENT_TYPES + ["ev_unused"])
            op.update({"kind": "fire", "type": etype, "data": dict(data, id=sid)})
            if rng.random() < 0.08:
                del op["data"]["kind"]  # filters naming a missing key raise
        ops.append(op)
    return {"cfg": cfg, "spec": {"funcs": funcs}, "ops": ops}


# ------------------------------------------------------------------ rendering
def _dec_src(dec: dict) -> str:
    args = [repr(dec["target"])]
    if dec["filter"] is not None:
        args.append(repr(filter_src(dec["filter"], dec["kind"])))
    args.append(f"kwargs={dec['kwargs']!r}")
    return f"@{dec['kind']}_trigger({', '.join(args)})"


def render(scn: dict) -> dict:
    lines = []
    for func in scn["spec"]["funcs"]:
        if not func["decs"]:
            continue
        for dec in func["decs"]:
            lines.append(_dec_src(dec))
        name = func["name"]
        lines += [
            f"def {name}(**kw):",
            "    rid = kw.get('id')",
            "    if rid is None:",
            "        p = kw.get('payload_obj')",
            "        if p is None:",
            "            p = kw.get('payload')",
            "        rid = p['id']",
            f"    sim.mark({name!r}, 'start', rid, **kw)",
        ]
        for step in func["body"]:
            if step[0] == "sleep":
                lines.append(f"    task.sleep({step[1]})")
            elif step[0] == "executor":
                lines.append("    xr = task.executor(sim.get('native_add'), rid, 1000)")
                lines.append(f"    sim.mark({name!r}, 'exec', rid, xr=xr)")
            elif step[0] == "fire":
                lines.append(f"    event.fire('out_ev', src={name!r}, rid=rid, dec=kw['dec'])")
            elif step[0] == "set":
                lines.append(f"    state.set('pyscript.out_{name}', str(rid), dec=kw['dec'])")
            elif step[0] == "call":
                lines.append(f"    test.record(src={name!r}, rid=rid, dec=kw['dec'])")
        lines.append(f"    sim.mark({name!r}, 'end', rid, dec=kw['dec'])")
        lines.append("")
    return {"pyscript/c08.py": "\n".join(lines) + "\n"}


def normalize(scn: dict) -> dict | None:
    funcs = [f for f in scn["spec"]["funcs"] if f["decs"]]
    if not funcs:
        return None
    scn["spec"]["funcs"] = funcs
    return scn


def simplify(scn: dict):
    for i, op in enumerate(scn["ops"]):
        if op.get("passes"):
            cand = copy.deepcopy(scn)
            cand["ops"][i].pop("passes")
            cand["ops"][i]["dt"] = 0.25
            yield cand
    for fi, func in enumerate(scn["spec"]["funcs"]):
        for di, dec in enumerate(func["decs"]):
            if dec["filter"] is not None:
                cand = copy.deepcopy(scn)
                cand["spec"]["funcs"][fi]["decs"][di]["filter"] = None
                yield cand
    for key, val in (("timer_late_ms", 0.0), ("drift", 0.0), ("cost_us", 50), ("exec_latency_ms", [0.0, 0.0]),
                     ("set_order_salt", 0)):
        if scn["cfg"].get(key) != val:
            cand = copy.deepcopy(scn)
            cand["cfg"][key] = val
            yield cand


# ------------------------------------------------------------------ run
def _topic_match(sub: str, topic: str) -> bool:
    sp, tp = sub.split("/"), topic.split("/")
    for i, part in enumerate(sp):
        if part == "#":
            return True
        if i >= len(tp) or (part != "+" and part != tp[i]):
            return False
    return len(sp) == len(tp)


def warmup() -> None:
    scn = gen(random.Random(1), "quick")
    scn["ops"] = scn["ops"][:2]
    run(scn)


def run(scn: dict) -> dict:
    spec = scn["spec"]
    w = World(scn["cfg"], render(scn))
    max_sleep = max([st[1] for f in spec["funcs"] for st in f["body"] if st[0] == "sleep"] + [0])
    cancelled: set = set()
    stim_ctx: dict = {}

    async def driver(w: World):
        from homeassistant.core import Context, callback

        records = w.natives.setdefault("records", [])

        @callback
        def record(call):
            records.append({"data": dict(call.data), "ctx": call.context, "vt": w.loop.vt})

        w.hass.services.async_register("test", "record", record)
        w.natives["native_add"] = lambda a, b: a + b
        await w.started()
        burst = 0
        for op in scn["ops"]:
            await wait_op(w, op)
            if op.get("dt", 0.0) > 0 or op.get("passes", 0) > 0:
                burst = 0
            burst += 1
            if burst == 3:
                w.probe("burst3")
            if op["kind"] == "fire":
                ctx = Context()
                stim_ctx[op["data"]["id"]] = ctx
                w.fire(op["type"], op["data"], context=ctx)
            elif op["kind"] == "cancel_run":
                for mark in w.marks:
                    if mark["args"][1:3] == ["start", op["sid"]] and not mark["task_obj"].done():
                        key = (mark["args"][0], mark["raw_kw"].get("dec"), op["sid"])
                        if key not in cancelled:
                            cancelled.add(key)
                            mark["task_obj"].cancel()
                            w.fault("cancel_run")
                            w.probe("run_cancelled")
            else:
                await apply_common(w, op)
        await w.settle(max_sleep + 1.0)
        await w.settle(0.5)

    w.run(driver)
    violations, nontrivial, extra = oracle(w, scn, cancelled, stim_ctx)
    return base_result(w, violations, nontrivial, extra)


def oracle(w: World, scn: dict, cancelled: set, stim_ctx: dict):
    sub = "legacy" if w.cfg["legacy"] else "new"
    violations = []
    stimuli = []  # in order
    for op in scn["ops"]:
        if op["kind"] == "fire":
            stimuli.append({"kind": "event", "target": op["type"], "data": op["data"], "sid": op["data"]["id"]})
        elif op["kind"] == "mqtt":
            data = json.loads(op["payload"])
            stimuli.append({"kind": "mqtt", "target": op["topic"], "data": data, "sid": data["id"],
                            "payload": op["payload"]})
        elif op["kind"] == "webhook":
            stimuli.append({"kind": "webhook", "target": op["id"], "data": op["payload"], "sid": op["payload"]["id"]})
    by_sid = {s["sid"]: s for s in stimuli}
    starts: dict = {}
    ends: dict = {}
    execs: dict = {}
    for mark in w.marks:
        fname, what, rid = mark["args"][0], mark["args"][1], mark["args"][2]
        di = mark["raw_kw"].get("dec")
        if what == "start":
            starts.setdefault((fname, di), []).append((rid, mark))
        elif what == "end":
            ends.setdefault((fname, di, rid), []).append(mark)
        elif what == "exec":
            execs[(fname, rid, mark["task"])] = mark["raw_kw"].get("xr")
    targets: dict = {}
    n_overlap = 0
    for func in scn["spec"]["funcs"]:
        for dec in func["decs"]:
            di = dec["kwargs"]["dec"]
            targets.setdefault((dec["kind"], dec["target"]), set()).add(func["name"])
            expected = []
            for st in stimuli:
                if st["kind"] != dec["kind"]:
                    continue
                if dec["kind"] == "mqtt":
                    if not _topic_match(dec["target"], st["target"]):
                        continue
                elif st["target"] != dec["target"]:
                    continue
                if dec["filter"] is not None:
                    ok, raised = filter_eval(dec["filter"], st["data"])
                    if raised:
                        w.probe("filter_raised")
                    if not ok:
                        w.probe("filter_rejected")
                        continue
                expected.append(st)
            got = starts.get((func["name"], di), [])
            got_ids = [rid for rid, _ in got]
            exp_ids = [st["sid"] for st in expected]
            desc = f"{func['name']} dec {di} [{_dec_src(dec)}]"
            sig = {"subsystem": sub, "trigger": dec["kind"]}
            if got_ids != exp_ids:
                missing = [i for i in exp_ids if i not in got_ids]
                extra_ids = [i for i in got_ids if i not in exp_ids]
                dups = sorted({i for i in got_ids if got_ids.count(i) > 1})
                t_first = min([m["t"] for _, m in got] + [0.0]) if got else 0.0
                if dups:
                    violations.append({"class": "C08.duplicated", "sig": sig, "t": t_first,
                                       "detail": f"{desc}: stimuli {dups} ran more than once; got {got_ids} expected {exp_ids}"})
                if missing:
                    violations.append({"class": "C08.lost", "sig": sig, "t": t_first,
                                       "detail": f"{desc}: stimuli {missing} never ran; got {got_ids} expected {exp_ids}"})
                if extra_ids:
                    violations.append({"class": "C08.spurious", "sig": sig, "t": t_first,
                                       "detail": f"{desc}: stimuli {sorted(set(extra_ids))} ran but do not match; "
                                                 f"got {got_ids} expected {exp_ids}"})
                if not dups and not missing and not extra_ids:
                    violations.append({"class": "C08.reordered", "sig": sig, "t": t_first,
                                       "detail": f"{desc}: got {got_ids} expected {exp_ids}"})
            # kwargs, distinct tasks, end markers, overlap
            seen_tasks = set()
            alive_until = -1.0
            for rid, mark in got:
                st = by_sid.get(rid)
                if st is None or st not in expected:
                    continue
                if mark["task"] in seen_tasks or mark["task"] is None:
                    violations.append({"class": "C08.shared_task", "sig": sig, "t": mark["t"],
                                       "detail": f"{desc}: run for stimulus {rid} is not in its own task"})
                seen_tasks.add(mark["task"])
                if dec["kind"] == "event":
                    exp_kw = {"trigger_type": "event", "event_type": st["target"], **st["data"]}
                elif dec["kind"] == "mqtt":
                    exp_kw = {"trigger_type": "mqtt", "topic": st["target"], "payload": st["payload"], "qos": 0,
                              "retain": False, "payload_obj": st["data"]}
                else:
                    exp_kw = {"trigger_type": "webhook", "webhook_id": st["target"], "payload": st["data"]}
                exp_kw.update(dec["kwargs"])
                got_kw = {k: v for k, v in mark["kw"].items() if k != "context"}
                if got_kw != w.norm(exp_kw):
                    violations.append({"class": "C08.wrong_kwargs", "sig": sig, "t": mark["t"],
                                       "detail": f"{desc}: stimulus {rid} kwargs {got_kw} != {w.norm(exp_kw)}"})
                if mark["vt"] < alive_until:
                    n_overlap += 1
                    w.probe("overlap")
                was_cancelled = (func["name"], di, rid) in cancelled
                end = ends.get((func["name"], di, rid), [])
                if not was_cancelled and len(end) != 1:
                    violations.append({"class": "C08.run_not_finished", "sig": sig, "t": mark["t"],
                                       "detail": f"{desc}: run for stimulus {rid} reached its end {len(end)} times"})
                if end:
                    alive_until = max(alive_until, end[0]["vt"])
                if any(s[0] == "executor" for s in func["body"]) and end:
                    w.probe("executor_in_body")
                    if execs.get((func["name"], rid, mark["task"])) != rid + 1000:
                        violations.append({"class": "C08.executor_result", "sig": sig, "t": mark["t"],
                                           "detail": f"{desc}: task.executor returned "
                                                     f"{execs.get((func['name'], rid, mark['task']))}"})
                # ---- contexts of what the run emitted
                if dec["kind"] == "event" and end:
                    trig_ctx = stim_ctx[rid].id
                    _check_outputs(w, func, dec, rid, trig_ctx, violations, sig, desc)
                elif end:
                    _check_outputs(w, func, dec, rid, None, violations, sig, desc)
    for (kind, _target), names in targets.items():
        if len(names) > 1:
            w.probe("same_type_two_functions")
    violations.sort(key=lambda v: v.get("t", 0.0))
    return violations, n_overlap >= 2, {"stimuli": len(stimuli), "runs": sum(len(v) for v in starts.values())}


def _check_outputs(w: World, func: dict, dec: dict, rid: int, trig_ctx, violations: list, sig: dict, desc: str):
    name = func["name"]
    di = dec["kwargs"]["dec"]
    kinds = [s[0] for s in func["body"]]

    def check_ctx(what, ctx, t):
        if trig_ctx is None:
            return
        w.probe("ctx_parent_checked")
        if ctx is None or ctx.parent_id != trig_ctx:
            violations.append({"class": "C08.context_parent", "sig": {**sig, "output": what}, "t": t,
                               "detail": f"{desc}: {what} of the run for stimulus {rid} has context parent "
                                         f"{getattr(ctx, 'parent_id', None)!r}, expected the triggering event's context"})

    if "fire" in kinds:
        outs = [e for e in w.bus_events if e["type"] == "out_ev" and e["data"].get("rid") == rid
                and e["data"].get("src") == name and e["data"].get("dec") == di]
        if len(outs) != 1 or dict(outs[0]["data"]) != {"src": name, "rid": rid, "dec": di}:
            violations.append({"class": "C08.event_fire", "sig": sig, "t": outs[0]["t"] if outs else 0.0,
                               "detail": f"{desc}: event.fire for stimulus {rid} produced "
                                         f"{[dict(o['data']) for o in outs]}"})
        else:
            check_ctx("event.fire", outs[0]["ctx"], outs[0]["t"])
    if "set" in kinds:
        outs = [e for e in w.bus_events if e["type"] == "state_changed"
                and e["data"]["entity_id"] == f"pyscript.out_{name}" and e["data"].get("new_state") is not None
                and e["data"]["new_state"].state == str(rid) and e["data"]["new_state"].attributes.get("dec") == di]
        if outs:  # an identical re-set emits no event; only judge what was emitted
            check_ctx("state.set", outs[0]["ctx"], outs[0]["t"])
    if "call" in kinds:
        recs = [r for r in w.natives.get("records", []) if r["data"] == {"src": name, "rid": rid, "dec": di}]
        if len(recs) != 1:
            violations.append({"class": "C08.service_call", "sig": sig, "t": 0.0,
                               "detail": f"{desc}: service call for stimulus {rid} delivered {len(recs)} times "
                                         f"with the given parameters"})
        else:
            check_ctx("service call", recs[0]["ctx"], recs[0]["vt"] - w.clock.vt0)
