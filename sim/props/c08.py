"""C08 - event, MQTT and webhook triggers deliver each message exactly once; contexts.

Workload: 1-4 functions with event / MQTT / webhook triggers (shared and distinct event types and
topics, optional filter expressions, several decorators, kwargs=); bodies sleep, call task.executor,
fire an event, set a state and call a recording service (registered without / with optional / with ONLY
response support; called as ``domain.service(...)`` or ``service.call(...)``, with or without explicit
return_response / blocking).  Stimuli carry unique ids and arrive back-to-back, a few passes apart or while
earlier runs still sleep; some runs are cancelled.  Event payloads occasionally carry an additional key with an
ordinary identifier as name (``name``, ``func``, ``self``, ``args``, ...).  0-2 further listeners are tasks
started at start-up that sit in a loop of ``task.wait_until(<kind>_trigger=...)`` on an event type / topic /
webhook id that decorators (and the other waiter) use too: such a listener unsubscribes itself while the
message is still being fanned out to the others.  Filters may contain a sub-expression that suspends
(``task.sleep(0)``), so that the evaluations for two messages of a burst overlap.
Occurrences with a history: fired events and state changes carry a fresh context or one that has a parent itself;
a second-hop function may be triggered by the events the first-hop runs fire (its occurrences carry a run's context).
A function may carry a ``@state_trigger`` (with or without ``state_hold``) next to its message triggers, its
entity being set true / false between the messages.  Event payloads may also use the names ``context``,
``trigger_type`` and ``event_type`` for the additional key, or have a key that is not a string.

Oracle: per decorator, runs == filter(stimuli) as a sequence (no loss, duplication or reordering),
each run in its own task, kwargs == payload (+ decorator kwargs); everything a run emits carries a
context whose parent is the triggering event's context; event.fire emits exactly its parameters.
A waiting task must be handed (with exactly the message's arguments, at most once, in order) every matching
message that is the first one after it demonstrably sat in task.wait_until (the loop went idle or 50 passes
went by since it announced the call); what arrives while it is between two calls is don't-care.
"""

from __future__ import annotations

import copy
import json
import random

from ..common import apply_common, base_result, gen_cfg, gen_delay, wait_op
from ..world import World

PROPERTY = "C08"
LEVEL = "exploration"
RULE = (
    "seeded generation of (script with 1-4 functions x 1-3 event/mqtt/webhook trigger decorators with optional "
    "filters (some with a suspending sub-expression), bodies whose service call goes to a service without / with "
    "optional / with ONLY response support in either call form, 0-2 start-up tasks looping in task.wait_until on "
    "event types / topics / webhook ids shared with decorators and with each other, timed sequence of <=20/30 "
    "stimuli with unique ids incl. bursts, stalls, cancellations, event payloads with an additional identifier-named "
    "key - also one of context/trigger_type/event_type - or a key that is no string; events and state changes whose "
    "context has a parent itself; optionally a second-hop function triggered by the events the runs fire; optionally "
    "a @state_trigger with/without state_hold on a function next to its message triggers, its entity set true/false "
    "between the messages); distinct = scenario digest; non-trivial = at least two stimuli delivered to one decorator while an "
    "earlier run of that function was still alive"
)
ASSUMPTIONS = [
    "HA core dispatches bus events, MQTT messages (fake broker) and webhooks (HA's real dispatcher) in call order",
    "webhook ids are shared between decorators and functions like event types and topics (pyscript keeps one "
    "Home Assistant registration per id and fans out; the note in the documentation only excludes sharing an id "
    "with a Home Assistant automation)",
    "order is judged per decorator; a filter may suspend (task.sleep(0)), every filter then suspends equally long, "
    "so the arrival order is the order the filters finish in",
    "a run cancelled by the harness is exempt from the 'reaches its end' check, nothing else is",
    "a task.wait_until listener only has to see a message when it demonstrably was inside the call when the message "
    "arrived: its last marker before the message is 'about to call wait_until', the loop went idle (clock jump) or "
    ">= 50 passes went by since, and no other qualifying message arrived in between; everything it is handed must "
    "still be a qualifying message, once, in order, with the message's arguments. Its filters never raise",
    "additional event payload keys are ordinary identifiers that differ from n/kind/id and from the keys of kwargs=; "
    "in the half of the runs with spec.steer set they come from a pool of three plain names and filters do not "
    "suspend. Event data may also have a key named context, trigger_type or event_type: which value the function "
    "then sees under that name is not decided by the property (the documentation says trigger_type is 'event' and "
    "event_type the type, the property says the data are passed on), so for exactly that key either value is "
    "accepted and the keyword argument context is never compared; the run itself, its other arguments and the "
    "parent of what it emits (the event's real context) are judged as always",
    "event data with a key that is not a string cannot be keyword arguments: whether that message starts a run "
    "(at most one) and with which arguments is don't-care for decorators; every other message is judged as always "
    "(a task.wait_until listener returns a dict and is judged as always)",
    "runs started by the @state_trigger of a function are another property's business (whether, when); only what "
    "such a run emits is judged here: its parent must be the context of the state change the run reports as value=",
    "the second-hop function is judged against the events observed on the bus (type out_ev, in bus order)",
    "the response-capable services are called in the combinations Home Assistant accepts (no return_response "
    "together with blocking=False, none for a service without responses); the returned response is not judged here",
]
TIERS = {
    "quick": {"runs": 2000, "chunk": 75, "max_ops": 20},
    "thorough": {"runs": 50000, "chunk": 250, "max_ops": 30},
}
REACH_PROBES = ["same_type_two_functions", "filter_rejected", "filter_raised", "overlap", "burst3",
                "run_cancelled", "executor_in_body", "ctx_parent_checked",
                "call_response_only_implicit", "call_response_explicit", "call_via_service_call", "call_nonblocking",
                "ctx_parent_checked_response_only", "waiter_shares_target_with_decorator", "two_waiters_same_target",
                "waiter_delivery_required", "waiter_got", "waiter_missed_between_calls", "suspending_filter_burst",
                "payload_extra_key", "payload_extra_key_delivered", "payload_reserved_key_delivered",
                "payload_nonstring_key", "trigger_ctx_has_parent", "chain_run", "chain_ctx_checked",
                "state_trigger_on_function", "state_run", "message_during_state_hold"]
SHRINK_LISTS = [["ops"], ["spec", "funcs"], ["spec", "funcs", "*", "decs"], ["spec", "funcs", "*", "body"],
                ["spec", "waiters"]]

EVENT_TYPES = ["ev_a", "ev_b", "ev_c"]
TOPICS = ["t/a", "t/b", "t/+/x"]
KINDS = ["a", "b", "7"]
# names an event payload may use for one more key: ordinary identifiers, all of them fine as keyword arguments of
# ``def f(**kw)``
XKEYS_PLAIN = ["name", "value", "data"]
XKEYS = XKEYS_PLAIN + ["func", "func_name", "self", "args", "kwargs", "ast_ctx", "task_unique", "hass_context", "cls"]
# names the trigger itself uses for keyword arguments: event data may use them as well (see ASSUMPTIONS)
XKEYS_RESERVED = ["context", "trigger_type", "event_type"]
# keys of event data that are not strings (JSON scenario: kept beside the data as [key, value])
NONSTR_KEYS = [5, 2.5]
STATE_ENTITIES = ["sensor.c08_sv0", "sensor.c08_sv1"]
CHAIN_EVENT = "out_ev"
CALL_DEFAULT = {"svc": "none", "form": "direct", "rr": None, "blocking": None}
SVC_NAME = {"none": "record", "opt": "record_opt", "only": "record_only"}
WAIT_MIN_PASSES = 50


# ------------------------------------------------------------------ filters
def gen_filter(rng: random.Random, kind: str, susp_ok: bool = False):
    """A filter as a small tree; printed per trigger kind, evaluated on the payload dict."""
    roll = rng.random()
    if roll < 0.45:
        return None
    if roll < 0.65:
        flt = ["n", rng.choice([">", ">=", "<", "=="]), rng.randint(0, 3)]
    elif roll < 0.8:
        flt = ["kind", rng.choice(["==", "!="]), rng.choice(KINDS)]
    elif roll < 0.9:
        flt = ["intkind", rng.choice([">", "<"]), rng.randint(0, 8)]  # int(kind): raises for 'a'/'b'
    else:
        flt = ["and", ["n", ">=", rng.randint(0, 2)], ["kind", "!=", rng.choice(KINDS)]]
    if rng.random() < 0.12 and susp_ok:
        flt = ["susp", flt]  # suspends once before it looks at the message
    return flt


def filter_src(flt, kind: str) -> str:
    def var(name):
        if kind == "event":
            return name
        if kind == "mqtt":
            return f"payload_obj[{name!r}]"
        return f"payload[{name!r}]"

    if flt[0] == "n":
        return f"{var('n')} {flt[1]} {flt[2]}"
    if flt[0] == "kind":
        return f"{var('kind')} {flt[1]} {flt[2]!r}"
    if flt[0] == "intkind":
        return f"int({var('kind')}) {flt[1]} {flt[2]}"
    if flt[0] == "and":
        return f"({filter_src(flt[1], kind)} and {filter_src(flt[2], kind)})"
    if flt[0] == "susp":
        return f"(task.sleep(0) is None and {filter_src(flt[1], kind)})"
    raise ValueError(flt)


def _suspends(flt) -> bool:
    return flt is not None and (flt[0] == "susp" or (flt[0] == "and" and (_suspends(flt[1]) or _suspends(flt[2]))))


_REL = {">": lambda a, b: a > b, ">=": lambda a, b: a >= b, "<": lambda a, b: a < b,
        "==": lambda a, b: a == b, "!=": lambda a, b: a != b}


def filter_eval(flt, data: dict) -> tuple[bool, bool]:
    """(passes, raised) - an exception means 'logged, treated as false'."""
    try:
        if flt[0] == "n":
            return bool(_REL[flt[1]](data["n"], flt[2])), False
        if flt[0] == "kind":
            return bool(_REL[flt[1]](data["kind"], flt[2])), False
        if flt[0] == "intkind":
            return bool(_REL[flt[1]](int(data["kind"]), flt[2])), False
        if flt[0] == "susp":
            return filter_eval(flt[1], data)
        if flt[0] == "and":
            left, r1 = filter_eval(flt[1], data)
            if r1:
                return False, True
            if not left:
                return False, False
            return filter_eval(flt[2], data)
    except (KeyError, ValueError, TypeError):
        return False, True
    raise ValueError(flt)


# ------------------------------------------------------------------ generation
def gen_call(rng: random.Random) -> list:
    """A service call of a run: which kind of service, which call form, which of Home Assistant's call options."""
    svc = rng.choice(["none", "none", "opt", "only", "only"])
    form = rng.choice(["direct", "direct", "service.call"])
    rr = None
    if svc == "none":
        blocking = rng.choice([None, None, True, False])
    elif svc == "opt":
        rr = rng.choice([None, True])
        blocking = rng.choice([None, True]) if rr else rng.choice([None, True, False])
    else:
        rr = rng.choice([None, None, True])
        blocking = rng.choice([None, None, True])
    return ["call", {"svc": svc, "form": form, "rr": rr, "blocking": blocking}]


def gen_waiters(rng: random.Random, funcs: list) -> list:
    """Tasks that loop in task.wait_until on a target decorators (and the other waiter) listen on too."""
    pool = [(d["kind"], d["target"]) for f in funcs for d in f["decs"]]
    waiters = []
    for wi in range(rng.choice([0, 0, 0, 1, 2, 2])):
        roll = rng.random()
        if waiters and roll < 0.6:
            kind, target = waiters[0]["kind"], waiters[0]["target"]
        elif roll < 0.9:
            kind, target = rng.choice(pool)
        else:
            kind = rng.choice(["event", "mqtt", "webhook"])
            target = {"event": rng.choice(EVENT_TYPES), "mqtt": rng.choice(TOPICS), "webhook": "hookw"}[kind]
        flt = ["n", rng.choice([">", ">=", "<", "=="]), rng.randint(0, 3)] if rng.random() < 0.3 else None
        waiters.append({"name": f"w{wi}", "kind": kind, "target": target, "filter": flt})
    return waiters


def gen(rng: random.Random, tier: str) -> dict:
    cfg = gen_cfg(rng)
    # steer: half of the runs stay away from the constructs with recorded findings (see ASSUMPTIONS)
    steer = rng.random() < 0.5
    funcs = []
    hook_n = 0
    for fi in range(rng.randint(1, 4)):
        decs = []
        for di in range(rng.choice([1, 1, 2, 3])):
            kind = rng.choice(["event", "event", "event", "mqtt", "webhook"])
            if kind == "event":
                target = rng.choice(EVENT_TYPES)
            elif kind == "mqtt":
                target = rng.choice(TOPICS)
            else:
                # webhook ids are shared between decorators and functions like event types and topics
                hook_n += 1
                target = rng.choice(["hook1", "hook1", "hook2", f"hook{hook_n + 2}"])
            kw = {"dec": di}
            if rng.random() < 0.15:
                kw["extra"] = rng.choice(["x", 5])
            decs.append({"kind": kind, "target": target, "filter": gen_filter(rng, kind, not steer), "kwargs": kw})
        body = []
        if rng.random() < 0.7:
            body.append(["sleep", rng.choice([0.1, 0.6, 2.0])])
        if rng.random() < 0.3:
            body.append(["executor"])
        if rng.random() < 0.6:
            body.append(["fire"])
        if rng.random() < 0.4:
            body.append(["set"])
        if rng.random() < 0.45:
            body.append(gen_call(rng))
        rng.shuffle(body)
        func = {"name": f"f{fi}", "decs": decs, "body": body}
        if rng.random() < 0.25:
            # a state trigger on the same function (legacy: it shares the trigger task of the first message trigger)
            func["state"] = {"entity": rng.choice(STATE_ENTITIES), "hold": rng.choice([None, 0.3, 1.0, 1.0, 2.0]),
                             "pos": rng.choice(["top", "bottom"])}
        funcs.append(func)
    chain = None
    if any(st[0] == "fire" for f in funcs for st in f["body"]) and rng.random() < 0.3:
        # second hop: a function triggered by the events the runs above fire
        cbody = [k for k in ("fire", "set", "call") if rng.random() < 0.6] or ["fire"]
        chain = {"name": "h0", "filter": rng.choice([None, None, ["dec", "==", 0]]),
                 "sleep": rng.choice([0, 0, 0.1, 0.6]), "body": cbody}
    waiters = gen_waiters(rng, funcs)
    ops = []
    sid = 0
    listeners = [d for f in funcs for d in f["decs"]] + waiters
    hooks = [d["target"] for d in listeners if d["kind"] == "webhook"]
    used_ev = [d["target"] for d in listeners if d["kind"] == "event"] or EVENT_TYPES
    xkeys = XKEYS_PLAIN if steer else XKEYS + XKEYS_RESERVED
    state_ents = sorted({f["state"]["entity"] for f in funcs if f.get("state")})
    nset = 0
    for _ in range(rng.randint(3, TIERS[tier]["max_ops"])):
        op = gen_delay(rng, burst_p=0.45)
        roll = rng.random()
        data = {"n": rng.randint(0, 3), "kind": rng.choice(KINDS)}
        if roll >= 0.12 and roll < 0.35 and rng.random() < 0.1:
            del data["kind"]  # MQTT / webhook payloads without the key as well: filters naming it raise
        if roll < 0.06:
            op.update({"kind": "stall", "s": rng.choice([0.01, 0.3, 1.5])})
        elif roll < 0.12 and sid > 0:
            op.update({"kind": "cancel_run", "sid": rng.randint(1, sid)})
        elif roll < 0.2 and hooks:
            sid += 1
            op.update({"kind": "webhook", "id": rng.choice(hooks), "payload": dict(data, id=sid),
                       "json": True})
        elif roll < 0.35:
            sid += 1
            topic = rng.choice(["t/a", "t/b", "t/q/x", "t/other"])
            op.update({"kind": "mqtt", "topic": topic, "payload": json.dumps(dict(data, id=sid), sort_keys=True)})
        elif roll < 0.48 and state_ents:
            nset += 1
            op.update({"kind": "set_state", "e": rng.choice(state_ents), "k": nset,
                       "s": f"on{nset}" if rng.random() < 0.7 else "off", "ctx_parent": rng.random() < 0.4})
        else:
            sid += 1
            etype = rng.choice(used_ev) if rng.random() < 0.75 else rng.choice(EVENT_TYPES + ["ev_unused"])
            op.update({"kind": "fire", "type": etype, "data": dict(data, id=sid)})
            if rng.random() < 0.08:
                del op["data"]["kind"]  # filters naming a missing key raise
            if rng.random() < 0.05:
                op["data"][rng.choice(xkeys)] = rng.choice(["v", 11])  # "arbitrary payloads": one more key
            elif not steer and rng.random() < 0.015:
                op["xnonstr"] = [rng.choice(NONSTR_KEYS), rng.choice(["v", 11])]  # ... or a key that is no string
            if rng.random() < 0.4:
                op["ctx_parent"] = True  # the event was caused by something: its context has a parent
        ops.append(op)
    spec = {"funcs": funcs, "waiters": waiters, "steer": steer}
    if chain is not None:
        spec["chain"] = chain
    return {"cfg": cfg, "spec": spec, "ops": ops}


# ------------------------------------------------------------------ rendering
def _dec_src(dec: dict) -> str:
    args = [repr(dec["target"])]
    if dec["filter"] is not None:
        args.append(repr(filter_src(dec["filter"], dec["kind"])))
    args.append(f"kwargs={dec['kwargs']!r}")
    return f"@{dec['kind']}_trigger({', '.join(args)})"


def _call_opts(step: list) -> dict:
    return dict(CALL_DEFAULT, **(step[1] if len(step) > 1 else {}))


def _call_src(step: list, name: str) -> str:
    opts = _call_opts(step)
    args = [f"src={name!r}", "rid=rid", "dec=kw['dec']"]
    if opts["rr"] is not None:
        args.append(f"return_response={opts['rr']}")
    if opts["blocking"] is not None:
        args.append(f"blocking={opts['blocking']}")
    svc = SVC_NAME[opts["svc"]]
    if opts["form"] == "direct":
        return f"test.{svc}({', '.join(args)})"
    return f"service.call('test', {svc!r}, {', '.join(args)})"


def _wait_src(waiter: dict) -> str:
    if waiter["filter"] is None:
        arg = repr(waiter["target"])
    else:
        arg = repr([waiter["target"], filter_src(waiter["filter"], waiter["kind"])])
    return f"task.wait_until({waiter['kind']}_trigger={arg})"


def _state_dec_src(state: dict) -> str:
    args = [repr(f"{state['entity']} != 'off'")]
    if state.get("hold") is not None:
        args.append(f"state_hold={state['hold']}")
    args.append("kwargs={'dec': 's'}")
    return f"@state_trigger({', '.join(args)})"


def _chain_src(chain: dict) -> list:
    """The second-hop function: triggered by the events the first-hop runs fire."""
    name = chain["name"]
    args = [repr(CHAIN_EVENT)]
    if chain.get("filter") is not None:
        args.append(repr(f"{chain['filter'][0]} {chain['filter'][1]} {chain['filter'][2]!r}"))
    args.append("kwargs={'hop': 2}")
    lines = [
        f"@event_trigger({', '.join(args)})",
        f"def {name}(**kw):",
        "    key = [kw.get('src'), kw.get('rid'), kw.get('dec')]",
        f"    sim.mark({name!r}, 'start', key, kw)",
    ]
    if chain.get("sleep"):
        lines.append(f"    task.sleep({chain['sleep']})")
    for kind in chain["body"]:
        if kind == "fire":
            lines.append(f"    event.fire('out2_ev', src={name!r}, via=key)")
        elif kind == "set":
            lines.append(f"    state.set('pyscript.out_{name}', 'x', via=key)")
        elif kind == "call":
            lines.append(f"    test.record(src={name!r}, via=key)")
    lines += [f"    sim.mark({name!r}, 'end', key)", ""]
    return lines


def render(scn: dict) -> dict:
    lines = []
    for func in scn["spec"]["funcs"]:
        if not func["decs"]:
            continue
        state = func.get("state")
        if state and state.get("pos") == "top":
            lines.append(_state_dec_src(state))
        for dec in func["decs"]:
            lines.append(_dec_src(dec))
        if state and state.get("pos") != "top":
            lines.append(_state_dec_src(state))
        name = func["name"]
        # the keyword arguments go to the marker as one dictionary: whatever names the payload uses, they are data
        lines += [
            f"def {name}(**kw):",
            "    rid = kw.get('id')",
        ]
        if state:
            lines += [
                "    if rid is None and 'var_name' in kw:",
                "        rid = str(kw.get('value'))",
            ]
        lines += [
            "    if rid is None:",
            "        p = kw.get('payload_obj')",
            "        if p is None:",
            "            p = kw.get('payload')",
            "        rid = p['id']",
            f"    sim.mark({name!r}, 'start', rid, kw)",
        ]
        for step in func["body"]:
            if step[0] == "sleep":
                lines.append(f"    task.sleep({step[1]})")
            elif step[0] == "executor":
                lines.append("    xr = task.executor(sim.get('native_add'), rid, 1000)")
                lines.append(f"    sim.mark({name!r}, 'exec', rid, xr=xr)")
            elif step[0] == "fire":
                lines.append(f"    event.fire('out_ev', src={name!r}, rid=rid, dec=kw['dec'])")
            elif step[0] == "set":
                lines.append(f"    state.set('pyscript.out_{name}', str(rid), dec=kw['dec'])")
            elif step[0] == "call":
                lines.append(f"    {_call_src(step, name)}")
        lines.append(f"    sim.mark({name!r}, 'end', rid, dec=kw['dec'])")
        lines.append("")
    if scn["spec"].get("chain"):
        lines += _chain_src(scn["spec"]["chain"])
    for waiter in scn["spec"].get("waiters") or []:
        name = waiter["name"]
        lines += [
            "@time_trigger('startup')",
            f"def {name}():",
            "    k = 0",
            "    while True:",
            "        k += 1",
            f"        sim.mark({name!r}, 'wait', k)",
            f"        got = {_wait_src(waiter)}",
            f"        sim.mark({name!r}, 'got', k, got)",
            "",
        ]
    return {"pyscript/c08.py": "\n".join(lines) + "\n"}


def normalize(scn: dict) -> dict | None:
    funcs = [f for f in scn["spec"]["funcs"] if f["decs"]]
    if not funcs and not scn["spec"].get("waiters"):
        return None
    scn["spec"]["funcs"] = funcs
    return scn


def _strip_susp(flt):
    if flt is None:
        return None
    if flt[0] == "susp":
        return _strip_susp(flt[1])
    if flt[0] == "and":
        return ["and", _strip_susp(flt[1]), _strip_susp(flt[2])]
    return flt


def simplify(scn: dict):
    for i, op in enumerate(scn["ops"]):
        if op.get("passes"):
            cand = copy.deepcopy(scn)
            cand["ops"][i].pop("passes")
            cand["ops"][i]["dt"] = 0.25
            yield cand
        if op["kind"] == "fire":
            for key in sorted(set(op.get("data") or {}) - {"n", "kind", "id"}):
                cand = copy.deepcopy(scn)
                del cand["ops"][i]["data"][key]
                yield cand
    for fi, func in enumerate(scn["spec"]["funcs"]):
        for di, dec in enumerate(func["decs"]):
            if dec["filter"] is not None:
                cand = copy.deepcopy(scn)
                cand["spec"]["funcs"][fi]["decs"][di]["filter"] = None
                yield cand
                if _suspends(dec["filter"]):
                    cand = copy.deepcopy(scn)
                    cand["spec"]["funcs"][fi]["decs"][di]["filter"] = _strip_susp(dec["filter"])
                    yield cand
        for bi, step in enumerate(func["body"]):
            if step[0] == "call" and _call_opts(step) != CALL_DEFAULT:
                cand = copy.deepcopy(scn)
                cand["spec"]["funcs"][fi]["body"][bi] = ["call"]
                yield cand
                for key, val in CALL_DEFAULT.items():
                    if _call_opts(step)[key] != val and not (key == "svc"):
                        cand = copy.deepcopy(scn)
                        cand["spec"]["funcs"][fi]["body"][bi] = ["call", dict(_call_opts(step), **{key: val})]
                        yield cand
    for wi, waiter in enumerate(scn["spec"].get("waiters") or []):
        if waiter["filter"] is not None:
            cand = copy.deepcopy(scn)
            cand["spec"]["waiters"][wi]["filter"] = None
            yield cand
    for key, val in (("timer_late_ms", 0.0), ("drift", 0.0), ("cost_us", 50), ("exec_latency_ms", [0.0, 0.0]),
                     ("set_order_salt", 0)):
        if scn["cfg"].get(key) != val:
            cand = copy.deepcopy(scn)
            cand["cfg"][key] = val
            yield cand


# ------------------------------------------------------------------ run
def _topic_match(sub: str, topic: str) -> bool:
    sp, tp = sub.split("/"), topic.split("/")
    for i, part in enumerate(sp):
        if part == "#":
            return True
        if i >= len(tp) or (part != "+" and part != tp[i]):
            return False
    return len(sp) == len(tp)


def _mark_kw(mark: dict) -> tuple[dict, dict]:
    """(normalised, raw) keyword arguments a 'start' / 'got' marker reports (4th positional; older scripts: **kw)."""
    if len(mark["args"]) > 3 and isinstance(mark["raw_args"][3], dict):
        return mark["args"][3], mark["raw_args"][3]
    return mark["kw"], mark["raw_kw"]


def _mark_dec(mark: dict):
    if mark["args"][1] == "start":
        return _mark_kw(mark)[1].get("dec")
    return mark["raw_kw"].get("dec")


def warmup() -> None:
    scn = gen(random.Random(1), "quick")
    scn["ops"] = scn["ops"][:2]
    run(scn)


def run(scn: dict) -> dict:
    spec = scn["spec"]
    w = World(scn["cfg"], render(scn))
    max_sleep = max([st[1] for f in spec["funcs"] for st in f["body"] if st[0] == "sleep"] + [0])
    # a hold that is pending after the last op, then the run, then the second hop
    max_sleep += max([(f.get("state") or {}).get("hold") or 0 for f in spec["funcs"]] + [0])
    max_sleep += (spec.get("chain") or {}).get("sleep") or 0
    set_ctx: dict = {}
    set_log: list = []
    cancelled: set = set()
    stim_ctx: dict = {}
    stim_at: dict = {}

    def mark_hook(rec):
        rec["jumps"] = w.loop.jumps
        rec["idx"] = len(w.marks) - 1

    w.mark_hook = mark_hook

    async def driver(w: World):
        from homeassistant.core import Context, SupportsResponse, callback

        records = w.natives.setdefault("records", [])

        def recorder(svc):
            @callback
            def record(call):
                records.append({"svc": svc, "data": dict(call.data), "ctx": call.context, "vt": w.loop.vt,
                                "rr": call.return_response})
                if call.return_response:
                    return {"svc": svc, "rid": call.data.get("rid")}
                return None

            return record

        w.hass.services.async_register("test", "record", recorder("record"))
        w.hass.services.async_register("test", "record_opt", recorder("record_opt"),
                                       supports_response=SupportsResponse.OPTIONAL)
        w.hass.services.async_register("test", "record_only", recorder("record_only"),
                                       supports_response=SupportsResponse.ONLY)
        w.natives["native_add"] = lambda a, b: a + b
        await w.started()
        burst = 0
        for op in scn["ops"]:
            await wait_op(w, op)
            if op.get("dt", 0.0) > 0 or op.get("passes", 0) > 0:
                burst = 0
            burst += 1
            if burst == 3:
                w.probe("burst3")
            here = {"nmarks": len(w.marks), "iter": w.loop.iterations, "jumps": w.loop.jumps, "burst": burst,
                    "t": w.vts()}
            if op["kind"] == "fire":
                ctx = Context(parent_id=Context().id) if op.get("ctx_parent") else Context()
                stim_ctx[op["data"]["id"]] = ctx
                stim_at[op["data"]["id"]] = here
                data = op["data"]
                if op.get("xnonstr"):
                    data = dict(data)
                    data[op["xnonstr"][0]] = op["xnonstr"][1]
                w.fire(op["type"], data, context=ctx)
            elif op["kind"] == "set_state":
                ctx = Context(parent_id=Context().id) if op.get("ctx_parent") else Context()
                set_ctx[op["s"]] = ctx
                set_log.append({"t": w.vts(), "e": op["e"], "s": op["s"]})
                w.set_state(op["e"], op["s"], {}, context=ctx)
            elif op["kind"] == "cancel_run":
                for mark in w.marks:
                    if mark["args"][1:3] == ["start", op["sid"]] and not mark["task_obj"].done():
                        key = (mark["args"][0], _mark_dec(mark), op["sid"])
                        if key not in cancelled:
                            cancelled.add(key)
                            mark["task_obj"].cancel()
                            w.fault("cancel_run")
                            w.probe("run_cancelled")
            else:
                if op["kind"] == "mqtt":
                    stim_at[json.loads(op["payload"])["id"]] = here
                elif op["kind"] == "webhook":
                    stim_at[op["payload"]["id"]] = here
                await apply_common(w, op)
        await w.settle(max_sleep + 1.0)
        await w.settle(0.5)

    w.run(driver)
    violations, nontrivial, extra = oracle(w, scn, cancelled, stim_ctx, stim_at, set_ctx, set_log)
    return base_result(w, violations, nontrivial, extra)


def _matches(listener: dict, st: dict) -> bool:
    if st["kind"] != listener["kind"]:
        return False
    if listener["kind"] == "mqtt":
        return _topic_match(listener["target"], st["target"])
    return st["target"] == listener["target"]


def _exp_args(kind: str, st: dict) -> dict:
    if kind == "event":
        args = {"trigger_type": "event", "event_type": st["target"], **st["data"]}
        if st.get("nonstr"):
            args[st["nonstr"][0]] = st["nonstr"][1]
        return args
    if kind == "mqtt":
        return {"trigger_type": "mqtt", "topic": st["target"], "payload": st["payload"], "qos": 0,
                "retain": False, "payload_obj": st["data"]}
    return {"trigger_type": "webhook", "webhook_id": st["target"], "payload": st["data"]}


def _kw_differ(w: World, got_norm: dict, exp_kw: dict, st: dict) -> bool:
    """Do the reported keyword arguments differ from the expected ones?  ``context`` is not compared; where the
    event data itself has a key ``trigger_type`` / ``event_type`` either value is accepted for it (ASSUMPTIONS)."""
    got = {k: v for k, v in got_norm.items() if k != "context"}
    exp = w.norm({k: v for k, v in exp_kw.items() if k != "context"})
    if st["kind"] == "event":
        for key, documented in (("trigger_type", "event"), ("event_type", st["target"])):
            if key in st["data"] and key in got and got[key] in (w.norm(st["data"][key]), documented):
                got.pop(key)
                exp.pop(key, None)
    return got != exp


def _xkey(st: dict):
    """The additional payload key of an event stimulus (None: it has none)."""
    if st["kind"] != "event":
        return None
    more = sorted(set(st["data"]) - {"n", "kind", "id"})
    return more[0] if more else None


def oracle(w: World, scn: dict, cancelled: set, stim_ctx: dict, stim_at: dict | None = None,
           set_ctx: dict | None = None, set_log: list | None = None):
    sub = "legacy" if w.cfg["legacy"] else "new"
    stim_at = stim_at or {}
    set_ctx = set_ctx or {}
    chain = scn["spec"].get("chain")
    chain_marks: list = []
    violations = []
    stimuli = []  # in order
    for op in scn["ops"]:
        if op["kind"] == "fire":
            stimuli.append({"kind": "event", "target": op["type"], "data": op["data"], "sid": op["data"]["id"],
                            "nonstr": op.get("xnonstr")})
        elif op["kind"] == "mqtt":
            data = json.loads(op["payload"])
            stimuli.append({"kind": "mqtt", "target": op["topic"], "data": data, "sid": data["id"],
                            "payload": op["payload"]})
        elif op["kind"] == "webhook":
            stimuli.append({"kind": "webhook", "target": op["id"], "data": op["payload"], "sid": op["payload"]["id"]})
    by_sid = {s["sid"]: s for s in stimuli}
    starts: dict = {}
    ends: dict = {}
    execs: dict = {}
    waiter_marks: dict = {}
    waiter_names = {wt["name"] for wt in scn["spec"].get("waiters") or []}
    for mark in w.marks:
        fname, what, rid = mark["args"][0], mark["args"][1], mark["args"][2]
        if fname in waiter_names:
            waiter_marks.setdefault(fname, []).append(mark)
            continue
        if chain and fname == chain["name"]:
            chain_marks.append(mark)
            continue
        di = _mark_dec(mark)
        if what == "start":
            starts.setdefault((fname, di), []).append((rid, mark))
        elif what == "end":
            ends.setdefault((fname, di, rid), []).append(mark)
        elif what == "exec":
            execs[(fname, rid, mark["task"])] = mark["raw_kw"].get("xr")
    targets: dict = {}
    n_overlap = 0
    for func in scn["spec"]["funcs"]:
        # an additional payload key handed to this function earlier (any decorator): part of the signature of a loss
        func_xkeys = []
        for st in stimuli:
            if _xkey(st) is not None and any(_matches(d, st) and (d["filter"] is None
                                                                  or filter_eval(d["filter"], st["data"])[0])
                                             for d in func["decs"]):
                func_xkeys.append((st["sid"], _xkey(st)))
        func_ran = {rid for (fname, _di), lst in starts.items() if fname == func["name"] for rid, _ in lst}
        # messages whose data cannot be keyword arguments (a key that is no string), handed to this function
        func_nonstr = [st["sid"] for st in stimuli
                       if st.get("nonstr") and any(_matches(d, st) and (d["filter"] is None
                                                                        or filter_eval(d["filter"], st["data"])[0])
                                                   for d in func["decs"])]
        for dec in func["decs"]:
            di = dec["kwargs"]["dec"]
            targets.setdefault((dec["kind"], dec["target"]), set()).add(func["name"])
            expected = []
            matching = []
            for st in stimuli:
                if not _matches(dec, st):
                    continue
                matching.append(st)
                if dec["filter"] is not None:
                    ok, raised = filter_eval(dec["filter"], st["data"])
                    if raised:
                        w.probe("filter_raised")
                    if not ok:
                        w.probe("filter_rejected")
                        continue
                expected.append(st)
            if _suspends(dec["filter"]) and any(stim_at.get(st["sid"], {}).get("burst", 1) > 1 for st in matching):
                w.probe("suspending_filter_burst")
            got = starts.get((func["name"], di), [])
            got_all = [rid for rid, _ in got]
            # a message that cannot be handed over as keyword arguments may or may not start a run (ASSUMPTIONS)
            optional = {st["sid"] for st in expected if st.get("nonstr")}
            for _ in optional:
                w.probe("payload_nonstring_key")
            got_ids = [rid for rid in got_all if rid not in optional or got_all.count(rid) > 1]
            exp_ids = [st["sid"] for st in expected if st["sid"] not in optional or got_all.count(st["sid"]) > 1]
            desc = f"{func['name']} dec {di} [{_dec_src(dec)}]"
            sig = {"subsystem": sub, "trigger": dec["kind"]}
            if _suspends(dec["filter"]):
                sig["filter"] = "suspends"
            if func.get("state"):
                sig["with_state_trigger"] = True
                w.probe("state_trigger_on_function")
                hold = func["state"].get("hold") or 0
                for st in expected:
                    t_st = stim_at.get(st["sid"], {}).get("t")
                    if t_st is not None and any(rec["e"] == func["state"]["entity"] and rec["s"] != "off"
                                                and rec["t"] < t_st < rec["t"] + hold for rec in set_log or []):
                        w.probe("message_during_state_hold")
            for st in expected:
                if _xkey(st) is not None:
                    w.probe("payload_extra_key")
                    if st["sid"] in got_ids:
                        w.probe("payload_extra_key_delivered")
            if got_ids != exp_ids:
                missing = [i for i in exp_ids if i not in got_ids]
                extra_ids = [i for i in got_ids if i not in exp_ids]
                dups = sorted({i for i in got_ids if got_ids.count(i) > 1})
                t_first = min([m["t"] for _, m in got] + [0.0]) if got else 0.0
                if dups:
                    violations.append({"class": "C08.duplicated", "sig": sig, "t": t_first,
                                       "detail": f"{desc}: stimuli {dups} ran more than once; got {got_ids} expected {exp_ids}"})
                if missing:
                    # the payload shape is part of the signature: a message with one more key / a message after one
                    # its own class: the function was handed a message with a key that is no string before
                    after_ns = [i for i in missing if any(s_id < i for s_id in func_nonstr)]
                    with_key = [i for i in missing if _xkey(by_sid[i]) is not None and i not in after_ns]
                    plain = [i for i in missing if _xkey(by_sid[i]) is None and i not in after_ns]

                    def t_of(ids):
                        return stim_at.get(ids[0], {}).get("t", t_first)

                    if after_ns:
                        violations.append({"class": "C08.lost_after_nonstring_key",
                                           "sig": {"subsystem": sub, "trigger": dec["kind"]}, "t": t_of(after_ns),
                                           "detail": f"{desc}: stimuli {after_ns} never ran; got {got_ids} expected "
                                                     f"{exp_ids} (the function was handed message(s) "
                                                     f"{[i for i in func_nonstr if i < after_ns[0]]} whose data has a "
                                                     f"key that is no string before)"})
                    if with_key:
                        keys = [_xkey(by_sid[i]) for i in with_key]
                        violations.append({"class": "C08.lost_payload_key", "sig": {**sig, "payload_key": keys[0]},
                                           "t": t_of(with_key),
                                           "detail": f"{desc}: stimuli {with_key} (event data with the additional "
                                                     f"key(s) {keys}) never ran; got {got_ids} expected {exp_ids}"})
                    if plain:
                        lsig = dict(sig)
                        # a message with an additional key was handed to this function before and got lost
                        before = [k for s_id, k in func_xkeys if s_id < plain[0] and s_id not in func_ran]
                        if before:
                            lsig["after_lost_payload_key"] = True
                        violations.append({"class": "C08.lost", "sig": lsig, "t": t_of(plain),
                                           "detail": f"{desc}: stimuli {plain} never ran; got {got_ids} expected {exp_ids}"
                                                     + (f" (after the lost message(s) with key(s) {before})" if before
                                                        else "")})
                if extra_ids:
                    violations.append({"class": "C08.spurious", "sig": sig, "t": t_first,
                                       "detail": f"{desc}: stimuli {sorted(set(extra_ids))} ran but do not match; "
                                                 f"got {got_ids} expected {exp_ids}"})
                if not dups and not missing and not extra_ids:
                    violations.append({"class": "C08.reordered", "sig": sig, "t": t_first,
                                       "detail": f"{desc}: got {got_ids} expected {exp_ids}"})
            # kwargs, distinct tasks, end markers, overlap
            seen_tasks = set()
            alive_until = -1.0
            for rid, mark in got:
                st = by_sid.get(rid)
                if st is None or st not in expected:
                    continue
                if mark["task"] in seen_tasks or mark["task"] is None:
                    violations.append({"class": "C08.shared_task", "sig": sig, "t": mark["t"],
                                       "detail": f"{desc}: run for stimulus {rid} is not in its own task"})
                seen_tasks.add(mark["task"])
                exp_kw = _exp_args(dec["kind"], st)
                exp_kw.update(dec["kwargs"])
                got_kw = {k: v for k, v in _mark_kw(mark)[0].items() if k != "context"}
                if any(k in st["data"] for k in XKEYS_RESERVED) and dec["kind"] == "event":
                    w.probe("payload_reserved_key_delivered")
                if not st.get("nonstr") and _kw_differ(w, got_kw, exp_kw, st):
                    violations.append({"class": "C08.wrong_kwargs", "sig": sig, "t": mark["t"],
                                       "detail": f"{desc}: stimulus {rid} kwargs {got_kw} != {w.norm(exp_kw)}"})
                if mark["vt"] < alive_until:
                    n_overlap += 1
                    w.probe("overlap")
                was_cancelled = (func["name"], di, rid) in cancelled
                end = ends.get((func["name"], di, rid), [])
                if not was_cancelled and len(end) != 1:
                    violations.append({"class": "C08.run_not_finished", "sig": sig, "t": mark["t"],
                                       "detail": f"{desc}: run for stimulus {rid} reached its end {len(end)} times"})
                if end:
                    alive_until = max(alive_until, end[0]["vt"])
                if any(s[0] == "executor" for s in func["body"]) and end:
                    w.probe("executor_in_body")
                    if execs.get((func["name"], rid, mark["task"])) != rid + 1000:
                        violations.append({"class": "C08.executor_result", "sig": sig, "t": mark["t"],
                                           "detail": f"{desc}: task.executor returned "
                                                     f"{execs.get((func['name'], rid, mark['task']))}"})
                # ---- contexts of what the run emitted
                if dec["kind"] == "event" and end:
                    csig = sig
                    if "context" in st["data"]:
                        # its own class, one signature per subsystem whatever the run emitted
                        csig = {"subsystem": sub, "trigger": "event", "payload_key": "context"}
                    if stim_ctx[rid].parent_id is not None:
                        w.probe("trigger_ctx_has_parent")
                    _check_outputs(w, func, dec, rid, stim_ctx[rid].id, violations, csig, desc)
                elif end:
                    _check_outputs(w, func, dec, rid, None, violations, sig, desc)
        # ---- the runs its state trigger started: whether and when is another property's business, but what such a
        # run emits has to name the state change it reports (kwargs value=...) as the parent
        if func.get("state"):
            sdec = {"kind": "state", "kwargs": {"dec": "s"}}
            ssig = {"subsystem": sub, "trigger": "state"}
            s_runs = starts.get((func["name"], "s"), [])
            for rid, mark in s_runs:
                w.probe("state_run")
                if rid in set_ctx and ends.get((func["name"], "s", rid)) and [r for r, _ in s_runs].count(rid) == 1:
                    if set_ctx[rid].parent_id is not None:
                        w.probe("trigger_ctx_has_parent")
                    _check_outputs(w, func, sdec, rid, set_ctx[rid].id, violations, ssig,
                                   f"{func['name']} [{_state_dec_src(func['state'])}]")
    for (kind, _target), names in targets.items():
        if len(names) > 1:
            w.probe("same_type_two_functions")
    n_got = _check_waiters(w, scn, stimuli, stim_at, waiter_marks, targets, violations, sub)
    if chain:
        _check_chain(w, chain, chain_marks, violations, sub)
    violations.sort(key=lambda v: v.get("t", 0.0))
    return violations, n_overlap >= 2, {"stimuli": len(stimuli), "runs": sum(len(v) for v in starts.values()),
                                        "waiter_returns": n_got}


def _check_waiters(w: World, scn: dict, stimuli: list, stim_at: dict, waiter_marks: dict, targets: dict,
                   violations: list, sub: str) -> int:
    """The task.wait_until listeners: nothing but qualifying messages, once, in order, with their arguments; and
    the first qualifying message after the task demonstrably entered the call must be handed to it."""
    waiters = scn["spec"].get("waiters") or []
    n_got = 0
    seen_targets = set()
    for waiter in waiters:
        name = waiter["name"]
        key = (waiter["kind"], waiter["target"])
        if key in targets:
            w.probe("waiter_shares_target_with_decorator")
        if key in seen_targets:
            w.probe("two_waiters_same_target")
        seen_targets.add(key)
        sig = {"subsystem": sub, "trigger": waiter["kind"], "listener": "wait_until"}
        desc = f"{name} [{_wait_src(waiter)}]"
        qualifying = []
        for st in stimuli:
            if not _matches(waiter, st):
                continue
            if waiter["filter"] is not None and not filter_eval(waiter["filter"], st["data"])[0]:
                continue
            qualifying.append(st)
        q_ids = [st["sid"] for st in qualifying]
        marks = waiter_marks.get(name, [])
        gots = []
        for mark in marks:
            if mark["args"][1] != "got":
                continue
            norm_kw, raw_kw = _mark_kw(mark)
            if waiter["kind"] == "event":
                rid = raw_kw.get("id")
            else:
                rid = (raw_kw.get("payload_obj" if waiter["kind"] == "mqtt" else "payload") or {}).get("id")
            gots.append((rid, mark, norm_kw))
        n_got += len(gots)
        got_ids = [g[0] for g in gots]
        t_first = gots[0][1]["t"] if gots else 0.0
        dups = sorted({i for i in got_ids if got_ids.count(i) > 1}, key=repr)
        extra_ids = sorted({i for i in got_ids if i not in q_ids}, key=repr)
        if dups:
            violations.append({"class": "C08.duplicated", "sig": sig, "t": t_first,
                               "detail": f"{desc}: messages {dups} were returned more than once; got {got_ids}"})
        if extra_ids:
            violations.append({"class": "C08.spurious", "sig": sig, "t": t_first,
                               "detail": f"{desc}: returned for {extra_ids}, which do not qualify; got {got_ids}, "
                                         f"qualifying {q_ids}"})
        if not dups and not extra_ids and got_ids != [i for i in q_ids if i in got_ids]:
            violations.append({"class": "C08.reordered", "sig": sig, "t": t_first,
                               "detail": f"{desc}: got {got_ids}, arrival order {q_ids}"})
        for rid, mark, norm_kw in gots:
            w.probe("waiter_got")
            if rid not in q_ids:
                continue
            st = qualifying[q_ids.index(rid)]
            got_kw = {k: v for k, v in norm_kw.items() if k != "context"}
            if _kw_differ(w, got_kw, _exp_args(waiter["kind"], st), st):
                violations.append({"class": "C08.wrong_kwargs", "sig": sig, "t": mark["t"],
                                   "detail": f"{desc}: message {rid} returned as {got_kw} != "
                                             f"{w.norm(_exp_args(waiter['kind'], st))}"})
        # ---- which messages it had to see
        prev_q_at = -1
        for st in qualifying:
            at = stim_at.get(st["sid"])
            if at is None:
                continue
            before = [m for m in marks if m["idx"] < at["nmarks"]]
            last = before[-1] if before else None
            first_since = last is not None and prev_q_at <= last["idx"]
            prev_q_at = at["nmarks"]
            if last is None or last["args"][1] != "wait" or not first_since:
                if st["sid"] not in got_ids:
                    w.probe("waiter_missed_between_calls")
                continue
            if not (at["jumps"] > last["jumps"] or at["iter"] - last["iter"] >= WAIT_MIN_PASSES):
                continue
            w.probe("waiter_delivery_required")
            if st["sid"] not in got_ids:
                violations.append({"class": "C08.lost", "sig": sig, "t": last["t"],
                                   "detail": f"{desc}: was waiting (call no. {last['args'][2]} announced at "
                                             f"t={last['t']}) when message {st['sid']} arrived, but was never handed "
                                             f"it; got {got_ids}, qualifying {q_ids}"})
    return n_got


def _check_chain(w: World, chain: dict, marks: list, violations: list, sub: str) -> None:
    """The second-hop function: every event the first-hop runs fired (as seen on the bus, in bus order) that passes
    its filter starts exactly one run with the event's data, and what that run emits names that event's context
    (a run's context: it has a parent itself when the first hop was started by an event) as parent."""
    name = chain["name"]
    sig = {"subsystem": sub, "trigger": "event", "hop": 2}
    flt = chain.get("filter")
    desc = f"{name} [second hop: @event_trigger({CHAIN_EVENT!r}" + (f", {flt[0]} {flt[1]} {flt[2]!r})]" if flt else ")]")

    def key_of(data) -> tuple:
        return (data.get("src"), data.get("rid"), data.get("dec"))

    occs = [e for e in w.bus_events if e["type"] == CHAIN_EVENT
            and (flt is None or e["data"].get(flt[0]) == flt[2])]
    exp_keys = [key_of(e["data"]) for e in occs]
    start_marks = [m for m in marks if m["args"][1] == "start"]
    got_keys = [tuple(m["args"][2]) for m in start_marks]
    ends: dict = {}
    for m in marks:
        if m["args"][1] == "end":
            ends.setdefault(tuple(m["args"][2]), []).append(m)
    t_first = start_marks[0]["t"] if start_marks else 0.0
    if got_keys != exp_keys:
        missing = [list(k) for k in exp_keys if k not in got_keys]
        extra = [list(k) for k in got_keys if k not in exp_keys]
        dups = [list(k) for k in dict.fromkeys(got_keys) if got_keys.count(k) > exp_keys.count(k) and k in exp_keys]
        for cls, lst, txt in (("C08.duplicated", dups, "ran more than once"), ("C08.lost", missing, "never ran"),
                              ("C08.spurious", extra, "ran but no such event passed the filter")):
            if lst:
                violations.append({"class": cls, "sig": sig, "t": t_first,
                                   "detail": f"{desc}: occurrences {lst} {txt}; got {[list(k) for k in got_keys]} "
                                             f"expected {[list(k) for k in exp_keys]}"})
        if not (missing or extra or dups):
            violations.append({"class": "C08.reordered", "sig": sig, "t": t_first,
                               "detail": f"{desc}: got {[list(k) for k in got_keys]} expected "
                                         f"{[list(k) for k in exp_keys]}"})
    seen_tasks = set()
    for mark in start_marks:
        key = tuple(mark["args"][2])
        if exp_keys.count(key) != 1 or got_keys.count(key) != 1:
            continue
        occ = occs[exp_keys.index(key)]
        w.probe("chain_run")
        if mark["task"] in seen_tasks or mark["task"] is None:
            violations.append({"class": "C08.shared_task", "sig": sig, "t": mark["t"],
                               "detail": f"{desc}: run for occurrence {list(key)} is not in its own task"})
        seen_tasks.add(mark["task"])
        exp_kw = w.norm({"trigger_type": "event", "event_type": CHAIN_EVENT, **dict(occ["data"]), "hop": 2})
        got_kw = {k: v for k, v in _mark_kw(mark)[0].items() if k != "context"}
        if got_kw != exp_kw:
            violations.append({"class": "C08.wrong_kwargs", "sig": sig, "t": mark["t"],
                               "detail": f"{desc}: occurrence {list(key)} kwargs {got_kw} != {exp_kw}"})
        if len(ends.get(key, [])) != 1:
            violations.append({"class": "C08.run_not_finished", "sig": sig, "t": mark["t"],
                               "detail": f"{desc}: run for occurrence {list(key)} reached its end "
                                         f"{len(ends.get(key, []))} times"})
            continue

        def check_ctx(what, ctx, t):
            w.probe("chain_ctx_checked")
            if occ["ctx"].parent_id is not None:
                w.probe("trigger_ctx_has_parent")
            if ctx is None or ctx.parent_id != occ["ctx"].id:
                violations.append({"class": "C08.context_parent", "sig": {**sig, "output": what}, "t": t,
                                   "detail": f"{desc}: {what} of the run for occurrence {list(key)} has context "
                                             f"parent {getattr(ctx, 'parent_id', None)!r}, expected the context of "
                                             f"the event that started it"
                                             + (" (got that event's own parent)"
                                                if ctx is not None and ctx.parent_id == occ["ctx"].parent_id else "")})

        via = list(key)
        if "fire" in chain["body"]:
            outs = [e for e in w.bus_events if e["type"] == "out2_ev" and e["data"].get("src") == name
                    and list(e["data"].get("via") or []) == via]
            if len(outs) != 1 or set(outs[0]["data"]) != {"src", "via"}:
                violations.append({"class": "C08.event_fire", "sig": sig, "t": outs[0]["t"] if outs else 0.0,
                                   "detail": f"{desc}: event.fire for occurrence {via} produced "
                                             f"{[dict(o['data']) for o in outs]}"})
            else:
                check_ctx("event.fire", outs[0]["ctx"], outs[0]["t"])
        if "set" in chain["body"]:
            outs = [e for e in w.bus_events if e["type"] == "state_changed"
                    and e["data"]["entity_id"] == f"pyscript.out_{name}" and e["data"].get("new_state") is not None
                    and list(e["data"]["new_state"].attributes.get("via") or []) == via]
            if outs:
                check_ctx("state.set", outs[0]["ctx"], outs[0]["t"])
        if "call" in chain["body"]:
            recs = [r for r in w.natives.get("records", []) if r["data"].get("src") == name
                    and list(r["data"].get("via") or []) == via]
            if len(recs) != 1 or set(recs[0]["data"]) != {"src", "via"}:
                violations.append({"class": "C08.service_call", "sig": sig, "t": 0.0,
                                   "detail": f"{desc}: service call for occurrence {via} delivered {len(recs)} times"})
            else:
                check_ctx("service call", recs[0]["ctx"], recs[0]["vt"] - w.clock.vt0)


def _check_outputs(w: World, func: dict, dec: dict, rid: int, trig_ctx, violations: list, sig: dict, desc: str):
    name = func["name"]
    di = dec["kwargs"]["dec"]
    kinds = [s[0] for s in func["body"]]

    def check_ctx(what, ctx, t):
        if trig_ctx is None:
            return False
        w.probe("ctx_parent_checked")
        if ctx is None or ctx.parent_id != trig_ctx:
            by_key = sig.get("payload_key") == "context"
            violations.append({"class": "C08.context_parent_payload_key" if by_key else "C08.context_parent",
                               "sig": sig if by_key else {**sig, "output": what}, "t": t,
                               "detail": f"{desc}: {what} of the run for stimulus {rid} has context parent "
                                         f"{getattr(ctx, 'parent_id', None)!r}, expected the triggering event's context"})
        return True

    if "fire" in kinds:
        outs = [e for e in w.bus_events if e["type"] == "out_ev" and e["data"].get("rid") == rid
                and e["data"].get("src") == name and e["data"].get("dec") == di]
        if len(outs) != 1 or dict(outs[0]["data"]) != {"src": name, "rid": rid, "dec": di}:
            violations.append({"class": "C08.event_fire", "sig": sig, "t": outs[0]["t"] if outs else 0.0,
                               "detail": f"{desc}: event.fire for stimulus {rid} produced "
                                         f"{[dict(o['data']) for o in outs]}"})
        else:
            check_ctx("event.fire", outs[0]["ctx"], outs[0]["t"])
    if "set" in kinds:
        outs = [e for e in w.bus_events if e["type"] == "state_changed"
                and e["data"]["entity_id"] == f"pyscript.out_{name}" and e["data"].get("new_state") is not None
                and e["data"]["new_state"].state == str(rid) and e["data"]["new_state"].attributes.get("dec") == di]
        if outs:  # an identical re-set emits no event; only judge what was emitted
            check_ctx("state.set", outs[0]["ctx"], outs[0]["t"])
    for step in func["body"]:
        if step[0] != "call":
            continue
        opts = _call_opts(step)
        svc = SVC_NAME[opts["svc"]]
        if opts["svc"] == "only" and opts["rr"] is None:
            w.probe("call_response_only_implicit")
        if opts["rr"]:
            w.probe("call_response_explicit")
        if opts["form"] != "direct":
            w.probe("call_via_service_call")
        if opts["blocking"] is False:
            w.probe("call_nonblocking")
        recs = [r for r in w.natives.get("records", []) if r["data"] == {"src": name, "rid": rid, "dec": di}]
        if len(recs) != 1 or recs[0].get("svc", svc) != svc:
            violations.append({"class": "C08.service_call", "sig": sig, "t": 0.0,
                               "detail": f"{desc}: service call {_call_src(step, name)} for stimulus {rid} delivered "
                                         f"{len(recs)} times with the given parameters "
                                         f"(to {[r.get('svc') for r in recs]})"})
        else:
            what = "service call" if opts["svc"] == "none" else f"service call ({opts['svc']} response)"
            if check_ctx(what, recs[0]["ctx"], recs[0]["vt"] - w.clock.vt0) and opts["svc"] == "only":
                w.probe("ctx_parent_checked_response_only")
