"""C13 - task.unique guarantees at most one live owner per name.

Workload: up to 5 tasks (service calls, task.create children, event triggers with @task_unique)
over <= 3 names and 2 global contexts, each running a generated sequence of
unique(name, kill_me) / sleep / name2id / cancel-by-name / add_done_callback / raise / finish, started
at generated instants incl. the same instant; plus a file whose preamble calls task.unique and is
(re)loaded while tasks are running.  Trigger functions may be hit by a BURST of 2-3 occurrences of their event in one
instant (no loop pass between the fires: every dispatch happens before the first new task has had a step), and a
program may move to the other global context with pyscript.set_global_ctx() in mid-run: every later
unique / name2id / cancel-by-name of that task then belongs to the context it is in NOW.
A program may wrap its steps in try/finally with a finally block that itself claims names and sleeps (a task that
SURVIVES its first cancellation and has to be cancelled again when a name it holds is claimed once more), and a
done callback may claim a name as well.  The two global contexts are either two files (file.ca / file.cb) or NESTED
script contexts (scripts.ca and scripts.ca.cb, both loaded), and unique names may contain dots ('cb.n0') or be the
empty string (docs: "the name can be any string").

Oracle: a reference map name -> owner per context, stepped through the markers the scripts emit
(they are totally ordered; a marker and the call that follows it are atomic on the loop), with the
liveness of every task observed at each marker and at every quiescent point of the simulator.  The map is keyed
by the caller's CURRENT global context (the pair (context, name): never a string built from the two).  A request to
die is satisfied when the CancelledError is DELIVERED (the task moves on to its finally block / done callback, seen by
the marker there, or ends); a task that survived a delivery is a live owner like any other and every later claim of
one of its names is a new request.  A body of a @task_unique(kill_me=True) function that starts while another
live task (that nobody asked to die) owns the name is a violation whatever the number of occurrences, and a task
that ends cancelled although no claim / task.cancel / kill_me rule of its context asked for it is one too (names
of different contexts never interact, a rightful owner is never the one that is killed).
"""

from __future__ import annotations

import copy
import random

from ..common import base_result, gen_cfg
from ..world import World

PROPERTY = "C13"
LEVEL = "exploration"
RULE = (
    "seeded generation of <=5 task programs over <=3 names x 2 contexts with start instants on a 0.25 s grid "
    "(same-instant starts included; trigger functions also get bursts of 2-3 occurrences fired back to back in one "
    "instant; ~1/4 of the programs switch to the other global context with pyscript.set_global_ctx before a claim; "
    "~1/3 of the programs have a finally block that claims a name and sleeps, ~1/3 of the done callbacks claim a name; "
    "~1/3 of the scenarios use nested script contexts scripts.ca / scripts.ca.cb, ~1/2 use dotted unique names, "
    "~1/8 the empty name); "
    "thorough tier additionally ENUMERATES all 3-task configurations from a "
    "family of 6 programs x 3 start offsets x 2 subsystems (11664 cases); distinct = scenario digest; "
    "non-trivial = some name was contested (a claim found a live owner)"
)
ASSUMPTIONS = [
    "a marker and the statement after it run without yielding to the loop (checked: markers of one step are adjacent)",
    "a kill_me caller whose rival has already been asked to die but is not dead yet is don't-care",
    "victims are required to be done at the next quiescent point of the loop (no ready callbacks, next timer in "
    "the future) unless an earlier victim's done-callback is still running - that case is reported as its own class",
    "after pyscript.set_global_ctx(X) returned, the task's current global context is X for every later task.* call "
    "of that function run (docs: 'sets the current global context to the given name'); both context files always exist "
    "when a program switches, a switch that raises (context being reloaded) just ends the task",
    "nothing in the workload except task.unique / task.cancel / kill_me cancels a program task, so a program task that "
    "ends cancelled without having been asked to die (or being don't-care) is a violation",
    "a task is cancelled only at a step that waits (task.sleep, or task.unique(kill_me=True) waiting to be killed): a "
    "finally block / done callback entered from such a step was entered by the delivery of a CancelledError, entered "
    "after the last step or from a raising step it was not; requests made before one delivery count as one request",
    "a done callback claims names in the context of the file that defines it; programs that switch the global context "
    "do not register claiming callbacks (which context a callback of a switched task runs in is not documented)",
]
TIERS = {
    "quick": {"runs": 900, "chunk": 30},
    "thorough": {"runs": 40000, "chunk": 200},
}
N_ENUM = 11664
REACH_PROBES = ["contested", "same_instant_claims", "kill_me_vs_live_owner", "kill_me_free_name", "owner_ended_name_released",
                "cancel_by_name", "callback_sleeping_during_kill", "two_contexts_same_name", "decorator_form",
                "preamble_unique", "multi_name_owner", "trigger_burst", "kill_me_trigger_burst",
                "decorator_kill_me_vs_live_owner",
                "ctx_switch", "claim_after_ctx_switch", "contested_after_ctx_switch", "same_name_owned_in_both_contexts",
                "finally_block", "cancelled_into_finally", "claim_in_finally", "contested_claim_in_finally",
                "claim_in_done_callback", "cancelled_into_done_callback", "second_cancel_request",
                "second_cancel_request_in_finally", "nested_contexts", "dotted_name_claim", "qualified_name_overlap",
                "empty_name_claim", "empty_name_decorator"]
# probes that can only fire while the defect they observe is present (C13-K1, repaired): not "reach"
SYMPTOM_PROBES = ["callback_sleeping_during_kill"]
SHRINK_LISTS = [["ops"], ["spec", "progs"], ["spec", "progs", "*", "steps"]]

NAMES = ["n0", "n1", "n2"]
CTXS = ["ca", "cb"]
GRID = 0.25
# spec["layout"]: where the two global contexts live.  "flat" (default, also when absent): pyscript/ca.py and
# pyscript/cb.py = file.ca / file.cb;  "nested": pyscript/scripts/ca.py and pyscript/scripts/ca/cb.py =
# scripts.ca / scripts.ca.cb (context names nest; both are loaded)
LAYOUTS = {
    "flat": {"ca": ("file.ca", "pyscript/ca.py"), "cb": ("file.cb", "pyscript/cb.py")},
    "nested": {"ca": ("scripts.ca", "pyscript/scripts/ca.py"), "cb": ("scripts.ca.cb", "pyscript/scripts/ca/cb.py")},
}


def ctx_global(spec: dict, ctx: str) -> str:
    return LAYOUTS[spec.get("layout", "flat")][ctx][0]


def ctx_path(spec: dict, ctx: str) -> str:
    return LAYOUTS[spec.get("layout", "flat")][ctx][1]


def qualified(spec: dict, ctx: str, name: str) -> str:
    """Dotted spelling of (context, name) - used for probes and for labelling violations only, never for a verdict."""
    return f"{ctx_global(spec, ctx)}.{name}"

# family used by the bounded-exhaustive part (thorough tier)
FAMILY = [
    [["unique", "n0", False], ["sleep", 1.0]],
    [["unique", "n0", True], ["sleep", 1.0]],
    [["unique", "n0", False], ["unique", "n1", False], ["sleep", 0.6]],
    [["sleep", 0.3], ["unique", "n0", False], ["sleep", 0.6]],
    [["unique", "n1", False], ["sleep", 0.3], ["unique", "n0", True], ["sleep", 0.6]],
    [["unique", "n0", False], ["sleep", 0.3], ["raise"]],
]


# ------------------------------------------------------------------ generation
def _name(rng: random.Random, style: dict | None, ctx: str | None = None) -> str:
    """A unique name: n0..n2, or (style) a dotted name 'cb.n0' / 'ca.n1' / the empty string."""
    if style:
        roll = rng.random()
        if roll < style.get("empty", 0.0):
            return ""
        # in the outer context of a nested pair the dotted names are the ones spelled like the inner context
        dotted = style.get("dotted", 0.0) * (1.6 if ctx == "ca" else 0.5 if ctx == "cb" else 1.0)
        if roll < style.get("empty", 0.0) + dotted:
            return f"{rng.choice(['cb', 'cb', 'cb', 'ca'])}.{rng.choice(NAMES)}"
    return rng.choice(NAMES)


def _gen_steps(rng: random.Random, depth: int = 0, style: dict | None = None, ctx: str | None = None) -> list:
    steps = []
    for _ in range(rng.randint(1, 6)):
        roll = rng.random()
        if roll < 0.4:
            steps.append(["unique", _name(rng, style, ctx), rng.random() < 0.3])
        elif roll < 0.7:
            steps.append(["sleep", rng.choice([0.1, 0.3, 0.6, 1.0, 2.0])])
        elif roll < 0.8:
            steps.append(["n2i"])
        elif roll < 0.86:
            steps.append(["cancel", _name(rng, style, ctx)])
        elif roll < 0.92:
            step = ["add_cb", rng.choice([0, 0, 0.4, 1.2])]
            if style is not None and rng.random() < 0.35:
                # the done callback claims a name itself (and is then a live owner while it sleeps)
                step += [_name(rng, style, ctx), rng.random() < 0.2]
                if step[1] == 0:
                    step[1] = rng.choice([0.4, 1.2])
            steps.append(step)
        elif roll < 0.96:
            steps.append(["raise"])
            break
    if not any(s[0] == "sleep" for s in steps):
        steps.append(["sleep", rng.choice([0.3, 1.0])])
    return steps


def _gen_fin(rng: random.Random, style: dict | None, ctx: str) -> list:
    """Steps of a finally block: it claims a name and then takes a while (so the task outlives its cancellation)."""
    fin = []
    if rng.random() < 0.2:
        fin.append(["sleep", rng.choice([0.1, 0.3])])
    fin.append(["unique", _name(rng, style, ctx), rng.random() < 0.2])
    if rng.random() < 0.3:
        fin.append(["n2i"])
    fin.append(["sleep", rng.choice([0.3, 0.6, 1.0, 2.0])])
    if rng.random() < 0.3:
        fin.append(["unique", _name(rng, style, ctx), rng.random() < 0.3])
        fin.append(["sleep", rng.choice([0.3, 0.6])])
    return fin


def _add_ctx_switch(rng: random.Random, prog: dict) -> None:
    """The program moves to the other global context (pyscript.set_global_ctx) before one of its claims."""
    other = [c for c in CTXS if c != prog["ctx"]][0]
    steps = prog["steps"]
    claims = [i for i, s in enumerate(steps) if s[0] == "unique"]
    if not claims or rng.random() < 0.2:
        pos = rng.randint(0, len(steps))
        if steps and steps[-1][0] == "raise":
            pos = min(pos, len(steps) - 1)
        steps.insert(pos, ["setctx", other])
        steps.insert(pos + 1, ["unique", rng.choice(NAMES), rng.random() < 0.3])
        pos += 1
    else:
        pos = rng.choice(claims)
        steps.insert(pos, ["setctx", other])
        pos += 1
    for step in steps:
        if step[0] == "add_cb":
            del step[2:]  # see ASSUMPTIONS: no claiming callbacks for a task that switches
    if rng.random() < 0.5:
        steps.insert(pos + 1, ["n2i"])
    if rng.random() < 0.3:  # ... and back again later on
        end = len(steps) - 1 if steps[-1][0] == "raise" else len(steps)
        back = rng.randint(pos + 1, end)
        steps.insert(back, ["setctx", prog["ctx"]])


def gen(rng: random.Random, tier: str) -> dict:
    cfg = gen_cfg(rng)
    cfg["drift"] = 0.0
    layout = "nested" if rng.random() < 0.35 else "flat"
    style = {"dotted": 0.0, "empty": 0.0}
    if rng.random() < (0.85 if layout == "nested" else 0.3):
        style["dotted"] = rng.choice([0.25, 0.4])
    if rng.random() < 0.12:
        style["empty"] = 0.2
    progs = []
    for tid in range(rng.randint(2, 5)):
        entry = rng.choice(["service", "service", "service", "trigger", "trigger", "create"])
        ctx = rng.choice(CTXS)
        prog = {"tid": tid, "ctx": ctx, "entry": entry, "steps": _gen_steps(rng, 0, style, ctx)}
        if entry == "trigger":
            prog["dec"] = [_name(rng, style, ctx), rng.random() < 0.5]
        if rng.random() < 0.25:
            _add_ctx_switch(rng, prog)
        if rng.random() < 0.35:
            prog["fin"] = _gen_fin(rng, style, ctx)
        progs.append(prog)
    ops = []
    k = 0
    for prog in progs:
        k += rng.choice([0, 0, 1, 1, 2, 4])
        ops.append({"k": k, "kind": "start", "tid": prog["tid"]})
        if prog["entry"] == "trigger" and rng.random() < 0.4:
            # a burst: further occurrences of the trigger in the same instant, fired back to back
            for _ in range(rng.choice([1, 1, 2])):
                ops.append({"k": k, "kind": "start", "tid": prog["tid"]})
        if rng.random() < 0.3:  # a program may be started twice (two tasks of one function)
            ops.append({"k": k + rng.choice([0, 1, 3]), "kind": "start", "tid": prog["tid"]})
    if rng.random() < 0.2:
        ops.append({"k": rng.randint(1, 6), "kind": "load_preamble", "ctx_name": _name(rng, style),
                    "kill_me": rng.random() < 0.5})
    if rng.random() < 0.15:
        ops.append({"k": rng.randint(1, 6), "kind": "stall", "s": rng.choice([0.01, 0.2])})
    ops.sort(key=lambda op: op["k"])
    return {"cfg": cfg, "spec": {"progs": progs, "layout": layout}, "ops": ops}


def gen_indexed(i: int, rng: random.Random, tier: str) -> dict:
    if tier != "thorough" or i >= N_ENUM:
        return gen(rng, tier)
    # bounded-exhaustive part: index -> (subsystem, 3 programs, 3 offsets)
    idx = i
    legacy = bool(idx % 2)
    idx //= 2
    progs = []
    ops = []
    for tid in range(3):
        fam = idx % 6
        idx //= 6
        progs.append({"tid": tid, "ctx": "ca", "entry": "service", "steps": copy.deepcopy(FAMILY[fam])})
    for tid in range(3):
        off = idx % 3
        idx //= 3
        ops.append({"k": off, "kind": "start", "tid": tid})
    ops.sort(key=lambda op: (op["k"], op["tid"]))
    cfg = gen_cfg(random.Random(12345), legacy=legacy, faults=False)
    cfg.update({"cost_us": 50, "set_order_salt": 0, "tz": "UTC"})
    return {"cfg": cfg, "spec": {"progs": progs, "enum": True}, "ops": ops}


# ------------------------------------------------------------------ rendering
def _step_src(tid: int, step: list, idx: int, spec: dict, fin: bool) -> list[str]:
    pre, post, n2i = ("fpre", "fpost", "fn2i") if fin else ("pre", "post", "n2i")
    lines = [f"sim.mark('p', {tid}, {pre!r}, {idx})"]
    if step[0] == "unique":
        lines.append(f"task.unique({step[1]!r}, kill_me={step[2]})")
    elif step[0] == "sleep":
        lines.append(f"task.sleep({step[1]})")
    elif step[0] == "n2i":
        lines.append(f"sim.mark('p', {tid}, {n2i!r}, {idx}, m=task.name2id())")
    elif step[0] == "cancel":
        lines.append(f"task.cancel(task.name2id({step[1]!r}))")
    elif step[0] == "add_cb":
        if len(step) > 2:
            lines.append(f"task.add_done_callback(task.current_task(), cb, {tid}, {step[1]}, {step[2]!r}, {step[3]})")
        else:
            lines.append(f"task.add_done_callback(task.current_task(), cb, {tid}, {step[1]})")
    elif step[0] == "setctx":
        lines.append(f"pyscript.set_global_ctx({ctx_global(spec, step[1])!r})")
    elif step[0] == "raise":
        lines.append("raise ValueError('boom')")
    lines.append(f"sim.mark('p', {tid}, {post!r}, {idx})")
    return lines


def _prog_src(prog: dict, spec: dict | None = None) -> list[str]:
    spec = spec or {}
    tid = prog["tid"]
    lines = []
    if prog["entry"] == "trigger":
        lines.append(f"@event_trigger('go_{tid}')")
        lines.append(f"@task_unique({prog['dec'][0]!r}, kill_me={prog['dec'][1]})")
        lines.append(f"def p{tid}(**kw):")
    elif prog["entry"] == "service":
        lines.append("@service")
        lines.append(f"def p{tid}():")
    else:
        lines.append(f"def p{tid}():")
    if prog["entry"] == "trigger":
        # (the decorator's claim is visible through the documented API when the body starts)
        lines.append(f"    sim.mark('p', {tid}, 'start', m=task.name2id())")
    else:
        lines.append(f"    sim.mark('p', {tid}, 'start')")
    fin = prog.get("fin")
    ind = "        " if fin else "    "
    if fin:
        lines.append("    try:")
    for idx, step in enumerate(prog["steps"]):
        lines += [ind + ln for ln in _step_src(tid, step, idx, spec, False)]
    lines.append(f"{ind}sim.mark('p', {tid}, 'end')")
    if fin:
        # the finally block goes on after the task was cancelled (or the body ended / raised)
        lines.append("    finally:")
        lines.append(f"        sim.mark('p', {tid}, 'fin')")
        for idx, step in enumerate(fin):
            lines += [ind + ln for ln in _step_src(tid, step, idx, spec, True)]
        lines.append(f"        sim.mark('p', {tid}, 'fend')")
    lines.append("")
    return lines


def render(scn: dict) -> dict:
    files = {}
    spec = scn["spec"]
    switched_to = {s[1] for p in spec["progs"] for s in p["steps"] if s[0] == "setctx"}
    for ctx in CTXS:
        progs = [p for p in spec["progs"] if p["ctx"] == ctx]
        if not progs and ctx not in switched_to:
            continue
        lines = [
            "def cb(tid, d, name=None, kill_me=False):",
            "    sim.mark('cb', tid, 'start')",
            "    if name is not None:",
            "        sim.mark('cb', tid, 'pre', name, kill_me)",
            "        task.unique(name, kill_me=kill_me)",
            "        sim.mark('cb', tid, 'post', name, kill_me)",
            "    if d:",
            "        task.sleep(d)",
            "    sim.mark('cb', tid, 'end')",
            "",
        ]
        for prog in progs:
            lines += _prog_src(prog, spec)
        creates = [p for p in progs if p["entry"] == "create"]
        if creates:
            lines.append("@service")
            lines.append(f"def spawn_{ctx}(tid=None):")
            for prog in creates:
                lines.append(f"    if tid == {prog['tid']}:")
                lines.append(f"        task.create(p{prog['tid']})")
            lines.append("")
        files[ctx_path(spec, ctx)] = "\n".join(lines) + "\n"
    return files


def normalize(scn: dict) -> dict | None:
    tids = {p["tid"] for p in scn["spec"]["progs"]}
    if not tids:
        return None
    scn["ops"] = [op for op in scn["ops"] if op["kind"] != "start" or op["tid"] in tids]
    if not any(op["kind"] == "start" for op in scn["ops"]):
        return None
    return scn


def simplify(scn: dict):
    for pi, prog in enumerate(scn["spec"]["progs"]):
        if prog["entry"] != "service":
            cand = copy.deepcopy(scn)
            cand["spec"]["progs"][pi]["entry"] = "service"
            cand["spec"]["progs"][pi].pop("dec", None)
            yield cand
        if prog["ctx"] != "ca":
            cand = copy.deepcopy(scn)
            cand["spec"]["progs"][pi]["ctx"] = "ca"
            yield cand
        if any(s[0] == "setctx" for s in prog["steps"]):
            cand = copy.deepcopy(scn)
            cand["spec"]["progs"][pi]["steps"] = [s for s in prog["steps"] if s[0] != "setctx"]
            yield cand
        if prog.get("fin"):
            cand = copy.deepcopy(scn)
            del cand["spec"]["progs"][pi]["fin"]
            yield cand
            if len(prog["fin"]) > 1:
                for fi in range(len(prog["fin"])):
                    cand = copy.deepcopy(scn)
                    del cand["spec"]["progs"][pi]["fin"][fi]
                    yield cand
        for si, step in enumerate(prog["steps"]):
            if step[0] == "add_cb" and len(step) > 2:
                cand = copy.deepcopy(scn)
                del cand["spec"]["progs"][pi]["steps"][si][2:]
                yield cand
    if scn["spec"].get("layout", "flat") != "flat":
        cand = copy.deepcopy(scn)
        cand["spec"]["layout"] = "flat"
        yield cand
    # a burst of one trigger -> a single occurrence
    seen = set()
    for oi, op in enumerate(scn["ops"]):
        if op["kind"] != "start":
            continue
        if (op["k"], op["tid"]) in seen:
            cand = copy.deepcopy(scn)
            del cand["ops"][oi]
            yield cand
            break
        seen.add((op["k"], op["tid"]))
    for key, val in (("timer_late_ms", 0.0), ("cost_us", 50), ("exec_latency_ms", [0.0, 0.0]), ("set_order_salt", 0)):
        if scn["cfg"].get(key) != val:
            cand = copy.deepcopy(scn)
            cand["cfg"][key] = val
            yield cand


def warmup() -> None:
    run(gen(random.Random(1), "quick"))


# ------------------------------------------------------------------ run + oracle
class Checker:
    """Reference owner map stepped through the markers; invariants at quiescent points."""

    def __init__(self, w: World, scn: dict) -> None:
        self.w = w
        self.scn = scn
        self.sub = "legacy" if w.cfg["legacy"] else "new"
        self.spec = scn["spec"]
        self.progs = {p["tid"]: p for p in scn["spec"]["progs"]}
        self.violations: list = []
        self.inst: dict = {}            # task label -> instance record
        self.owner: dict = {}           # (ctx, name) -> task label
        self.claimants: dict = {}       # (ctx, name) -> [labels that ever claimed]
        self.must_die: dict = {}        # label -> reason, since (vt)
        self.cb_running: set = set()    # labels whose done-callback is running
        self.pending_post: dict = {}    # label -> (idx, expectation)
        self.contested = False
        self.reported_dead_owner: set = set()
        self.claim_log: list = []
        self.preamble = None
        self.protected: dict = {}
        self.doomed_ever: set = set()
        self.maybe_die: set = set()     # labels whose cancellation is don't-care
        self.dec_reported: set = set()  # tids whose decorator-form kill_me violation was seen at the body start
        self.reload_vts: list = []
        self.cancel_log: list = []      # task.cancel(task.name2id(name)) while another pair with the same spelling was owned
        self.overlap_seen = False       # two live owners of (context, name) pairs with the same dotted spelling existed
        self.dec_missing = False        # a @task_unique claim was not reported by task.name2id()

    # -- helpers
    def alive(self, label) -> bool:
        rec = self.inst.get(label)
        return rec is not None and not rec["task"].done()

    def viol(self, cls: str, sig: dict, detail: str) -> None:
        # consequences of an earlier divergence carry its mark, so that a finding can be recorded per cause
        if self.dec_missing and cls != "C13.decorator_claim_missing":
            sig = {**sig, "after_decorator_claim_missing": True}
        self.violations.append({"class": cls, "sig": {"subsystem": self.sub, **sig}, "detail": detail,
                                "t": self.w.vts(), "_ov": self.overlap_seen})

    @staticmethod
    def _spelling_primary(viol: dict) -> bool:
        sig = viol["sig"]
        return bool(sig.get("other_context_same_spelling")) or sig.get("pattern") in (
            "other_context_same_spelling", "other_context_name")

    def finish_marks(self) -> None:
        """A run in which the dotted spelling of (context, name) pairs demonstrably mattered: what else it reports
        once such pairs were in play is marked as a possible consequence of that (a mark in the signature only)."""
        prim = [v for v in self.violations if self._spelling_primary(v)]
        first = min((v["t"] for v in prim), default=None)
        for viol in self.violations:
            seen = viol.pop("_ov", False)
            if prim and not self._spelling_primary(viol) and (seen or viol["t"] >= first):
                viol["sig"]["after_same_spelling_overlap"] = True

    def live_owner(self, ctx, name):
        label = self.owner.get((ctx, name))
        if label is not None and self.alive(label):
            return label
        return None

    def doom(self, label, why: str, vt=None) -> None:
        """Task `label` has to be cancelled (one request; requests made before its delivery are one request)."""
        self.doomed_ever.add(label)
        rec = self.inst.get(label)
        if label not in self.must_die and rec is not None and rec.get("cancels"):
            # a task that already survived a cancellation (it is in its finally block / done callback) must go again
            self.w.probe("second_cancel_request")
            if rec.get("zone") == "fin":
                self.w.probe("second_cancel_request_in_finally")
        self.must_die.setdefault(label, {"why": why, "vt": self.w.loop.vt if vt is None else vt,
                                         "cb_block": set(self.cb_running)})

    def overlap(self, ctx, name, label=None) -> list:
        """Live owners of OTHER (context, name) pairs whose dotted spelling is the same (labelling only)."""
        mine = qualified(self.spec, ctx, name)
        return [lab for (c, n), lab in self.owner.items()
                if (c, n) != (ctx, name) and qualified(self.spec, c, n) == mine and self.alive(lab) and lab != label]

    def transition(self, label, zone: str) -> None:
        """The task entered its finally block / its done callback: was that the delivery of a CancelledError?"""
        rec = self.inst.get(label)
        if rec is None:
            return
        step = rec.get("cur_step")
        if step is None:
            cause = "normal"   # the zone before ran to its end
        elif step[0] == "sleep" or (step[0] == "unique" and step[2]):
            cause = "cancel"   # only a CancelledError ends a step that waits
        else:
            cause = "exc"      # raise / NameError of task.cancel / failed context switch
        rec["zone"] = zone
        rec["cur_step"] = None
        if cause == "cancel":
            rec["cancels"] = rec.get("cancels", 0) + 1
            self.must_die.pop(label, None)  # delivered; it is a live owner again until somebody claims one of its names
            self.w.probe("cancelled_into_finally" if zone == "fin" else "cancelled_into_done_callback")

    def release_dead(self) -> None:
        for key, label in list(self.owner.items()):
            if not self.alive(label):
                del self.owner[key]
                self.w.probe("owner_ended_name_released")

    def claim(self, ctx, name, label, kill_me, where) -> bool:
        """Apply the reference transition. Returns False if the caller must be terminated."""
        self.release_dead()
        prev = self.live_owner(ctx, name)
        other_ctx = [k for k in self.owner if k[1] == name and k[0] != ctx]
        if other_ctx:
            self.w.probe("two_contexts_same_name")
            if any(self.alive(self.owner[k]) and self.owner[k] != label for k in other_ctx):
                self.w.probe("same_name_owned_in_both_contexts")
        switched = bool(self.inst.get(label, {}).get("switched"))
        if switched:
            self.w.probe("claim_after_ctx_switch")
        if "." in name:
            self.w.probe("dotted_name_claim")
        if name == "":
            self.w.probe("empty_name_claim")
        if self.overlap(ctx, name, label):
            self.w.probe("qualified_name_overlap")
            self.overlap_seen = True
        zone = self.inst.get(label, {}).get("zone")
        if zone == "fin":
            self.w.probe("claim_in_finally")
        elif zone == "cb":
            self.w.probe("claim_in_done_callback")
        if prev is not None and prev != label:
            self.contested = True
            self.w.probe("contested")
            if switched:
                self.w.probe("contested_after_ctx_switch")
            if zone == "fin":
                self.w.probe("contested_claim_in_finally")
            if kill_me:
                self.w.probe("kill_me_vs_live_owner")
                if prev in self.must_die or prev in self.maybe_die:
                    self.maybe_die.add(label)
                    return None  # rival already asked to die: don't-care
                return False
            self.doom(prev, f"{name} claimed by task {label} ({where})")
        elif kill_me:
            self.w.probe("kill_me_free_name")
        self.owner[(ctx, name)] = label
        self.claim_log.append((self.w.loop.vt, ctx, name, label))
        self.claimants.setdefault((ctx, name), [])
        if label not in self.claimants[(ctx, name)]:
            self.claimants[(ctx, name)].append(label)
        if sum(1 for k, v in self.owner.items() if v == label) > 1:
            self.w.probe("multi_name_owner")
        return True

    def claim_decorator(self, ctx, name, label, kill_me, tid) -> None:
        """The body of a @task_unique function starts: the rule was applied just before, in the same task step."""
        if self.overlap(ctx, name, label):
            self.w.probe("qualified_name_overlap")
            self.overlap_seen = True
        if kill_me:
            self.release_dead()
            prev = self.live_owner(ctx, name)
            if prev is not None and prev != label:
                self.contested = True
                self.w.probe("contested")
                if prev not in self.must_die and prev not in self.maybe_die:
                    prec = self.inst.get(prev) or {}
                    self.dec_reported.add(tid)
                    self.viol("C13.kill_me_survived", {"form": "decorator"},
                              f"p{tid} task {label}: the body of @task_unique({name!r}, kill_me=True) started although "
                              f"live task {prev} (p{prec.get('tid')}) owns the name in {ctx}")
                # whatever happens to the rightful owner now is no longer judged; the newcomer ran, so it claimed
                self.maybe_die.add(prev)
                self.owner[(ctx, name)] = label
                self.claim_log.append((self.w.loop.vt, ctx, name, label))
                self.claimants.setdefault((ctx, name), [])
                if label not in self.claimants[(ctx, name)]:
                    self.claimants[(ctx, name)].append(label)
                return
        self.claim(ctx, name, label, False, "@task_unique")

    def cur_ctx(self, label, prog) -> str:
        rec = self.inst.get(label)
        return rec["cur"] if rec is not None else prog["ctx"]

    # -- marker processing
    def on_mark(self, rec: dict) -> None:
        args = rec["args"]
        label = rec["task"]
        if args[0] == "cb":
            if args[2] == "start":
                self.cb_running.add(label)
                self.transition(label, "cb")
            elif args[2] in ("pre", "post"):
                # the done callback claims a name: cb(tid, d, name, kill_me) - the step that registered it says which
                inst = self.inst.get(label)
                prog = self.progs.get(inst["tid"]) if inst else None
                if prog is None:
                    return
                step = ["unique", args[3], bool(args[4])]  # (the callback reports its own arguments)
                if args[2] == "pre":
                    inst["cur_step"] = step
                    res = self.claim(prog["ctx"], step[1], label, step[2], f"done callback of p{inst['tid']}")
                    self.pending_post[label] = {"idx": "cb", "expect": res, "step": step, "vt": rec["vt"]}
                    if res is False:
                        self.doom(label, f"kill_me=True while {step[1]} is owned by a live task", rec["vt"])
                else:
                    inst["cur_step"] = None
                    pend = self.pending_post.pop(label, None)
                    if pend and pend["idx"] == "cb" and pend["expect"] is False:
                        self.viol("C13.kill_me_survived", {"form": "call"},
                                  f"done callback of p{inst['tid']} task {label}: task.unique({step[1]!r}, kill_me=True) "
                                  f"returned although live task {self.live_owner(prog['ctx'], step[1])} owns the name")
            else:
                self.cb_running.discard(label)
            return
        if args[0] == "preamble" and args[1] == "pre" and self.preamble:
            # the caller is the reload service task: it never becomes the owner; without kill_me the current
            # owner must die, with kill_me=True nothing happens
            self.release_dead()
            pre = self.preamble
            victim = self.live_owner(pre["ctx"], pre["name"])
            if victim is not None:
                self.contested = True
                if not pre["kill_me"]:
                    self.doom(victim, f"{pre['name']} claimed by the file preamble", rec["vt"])
                else:
                    # kill_me=True from a caller pyscript did not start does nothing: the owner lives on
                    self.protected[victim] = {"vt": rec["vt"], "name": pre["name"]}
            return
        if args[0] != "p":
            return
        tid, what = args[1], args[2]
        prog = self.progs.get(tid)
        if prog is None:
            return
        if what == "start":
            self.inst[label] = {"tid": tid, "task": rec["task_obj"], "ctx": prog["ctx"], "cur": prog["ctx"],
                                "start_vt": rec["vt"], "switched": False, "zone": "main", "cur_step": None,
                                "cancels": 0}
            if prog.get("fin"):
                self.w.probe("finally_block")
            if prog["entry"] == "trigger":
                self.w.probe("decorator_form")
                name, kill_me = prog["dec"]
                if name == "":
                    self.w.probe("empty_name_decorator")
                self.claim_decorator(prog["ctx"], name, label, kill_me, tid)
                got = rec["raw_kw"].get("m")
                if got is not None and self.w.label_of(got.get(name)) != label:
                    # "@task_unique applies the same rule before the function body starts ... the caller becomes the
                    # name's owner as reported by task.name2id"
                    self.dec_missing = True
                    self.viol("C13.decorator_claim_missing", {"empty_name": name == ""},
                              f"p{tid} task {label}: the body of @task_unique({name!r}, kill_me={kill_me}) started but "
                              f"task.name2id() does not report the task as the owner of {name!r}: "
                              f"{ {n: self.w.label_of(t) for n, t in got.items()} }")
            return
        if label not in self.inst:
            return
        if what == "fin":
            self.transition(label, "fin")
            return
        fin = what in ("fpre", "fpost", "fn2i")
        steps = prog.get("fin", []) if fin else prog["steps"]
        if what in ("pre", "fpre"):
            idx = args[3]
            step = steps[idx]
            self.inst[label]["cur_step"] = step
            # a marker of another task between my pre and post means the step yielded: fine for sleep only
            ctx = self.cur_ctx(label, prog)
            if step[0] == "unique":
                res = self.claim(ctx, step[1], label, step[2],
                                 f"step {idx} of {'the finally block of ' if fin else ''}p{tid} in {ctx}")
                self.pending_post[label] = {"idx": (what, idx), "expect": res, "step": step, "vt": rec["vt"],
                                            "overlap": bool(self.overlap(ctx, step[1], label))}
                if res is False:
                    self.doom(label, f"kill_me=True while {step[1]} is owned by a live task", rec["vt"])
            elif step[0] == "cancel":
                self.release_dead()
                victim = self.live_owner(ctx, step[1])
                self.w.probe("cancel_by_name")
                spelled = self.overlap(ctx, step[1], None)
                if spelled:
                    self.w.probe("qualified_name_overlap")
                    self.overlap_seen = True
                    self.cancel_log.append((rec["vt"], ctx, step[1], label))
                if victim is None:
                    self.pending_post[label] = {"idx": (what, idx), "expect": "nameerror", "step": step, "vt": rec["vt"],
                                                "overlap": bool(spelled)}
                else:
                    self.doom(victim, f"task.cancel by p{tid}", rec["vt"])
                    self.pending_post[label] = {"idx": (what, idx), "expect": True if victim != label else False,
                                                "step": step, "vt": rec["vt"]}
            elif step[0] == "raise":
                self.pending_post[label] = {"idx": (what, idx), "expect": "raise", "step": step, "vt": rec["vt"]}
        elif what in ("post", "fpost"):
            idx = args[3]
            self.inst[label]["cur_step"] = None
            pend = self.pending_post.pop(label, None)
            if steps[idx][0] == "setctx":
                # the switch returned: from here on the task lives in the other context
                self.inst[label]["cur"] = steps[idx][1]
                self.inst[label]["switched"] = True
                self.w.probe("ctx_switch")
            if pend and pend["idx"] == ("fpre" if fin else "pre", idx):
                if pend["expect"] is False and pend["step"][0] == "unique":
                    owner = self.live_owner(self.cur_ctx(label, prog), pend["step"][1])
                    self.viol("C13.kill_me_survived", {"form": "call"},
                              f"p{tid} task {label}: task.unique({pend['step'][1]!r}, kill_me=True) returned although "
                              f"live task {owner} owns the name")
                elif pend["expect"] in ("nameerror", "raise"):
                    sig = {"what": pend["expect"]}
                    if pend.get("overlap"):
                        sig["other_context_same_spelling"] = True
                    self.viol("C13.model_mismatch", sig,
                              f"p{tid} task {label}: step {idx} {pend['step']} was expected to raise but continued"
                              + (" (nobody owns the name in this global context; a task of the other context owns a "
                                 "name whose dotted spelling context.name is the same)" if pend.get("overlap") else ""))
        elif what in ("n2i", "fn2i"):
            self.release_dead()
            got = rec["raw_kw"].get("m") or {}
            got_lab = {n: self.w.label_of(t) for n, t in got.items()}
            ctx = self.cur_ctx(label, prog)
            exp = {n: lab for (c, n), lab in self.owner.items() if c == ctx and self.alive(lab)}
            if got_lab != exp:
                stale = {n: l for n, l in got_lab.items() if l in self.inst and not self.alive(l)}
                # names of ANOTHER context in the answer: the same dotted spelling as (ctx, n) is owned over there
                foreign = sorted(n for n, l in got_lab.items() if exp.get(n) != l and any(
                    c2 != ctx and qualified(self.spec, c2, n2) == qualified(self.spec, ctx, n) and l2 == l
                    for (c2, n2), l2 in self.owner.items()))
                hidden = sorted(n for n in exp if n not in got_lab and self.overlap(ctx, n))
                pattern = ("dead_owner_listed" if stale else "other_context_name" if foreign or hidden else "other")
                self.viol("C13.name2id", {"pattern": pattern},
                          f"p{tid} task {label} in {ctx}: task.name2id() = {got_lab}, reference owners = {exp}"
                          + (f" - {foreign} belong to the other global context" if foreign else ""))

    # -- invariants at quiescent points
    def on_quiescent(self, _loop) -> None:
        self.doomed_ever.update(k for k in self.must_die if not isinstance(k, tuple))
        self.release_dead()
        for label, info in list(self.must_die.items()):
            if not self.alive(label):
                del self.must_die[label]
                continue
            rec = self.inst.get(label)
            blockers = {b for b in self.cb_running if b != label and self.alive(b)}
            # (a request delivered to the task is taken off must_die by the marker of the finally block / done callback
            # it moved on to; what is left here was NOT delivered - or was made after that - so the task has to be gone
            # at this quiescent point even if its own done callback is running)
            if blockers:
                self.w.probe("callback_sleeping_during_kill")
                if not info.get("reported"):
                    info["reported"] = True
                    self.viol("C13.reaper_head_of_line", {},
                              f"task {label} (p{rec['tid']}) must die ({info['why']}) but is still alive at a quiescent "
                              f"point because the done-callback of task(s) {sorted(blockers)} is still running")
                continue
            if not info.get("reported"):
                info["reported"] = True
                why = info["why"]
                sig = {"why": "kill_me=True" if why.startswith("kill_me=True") else "task.cancel"
                       if why.startswith("task.cancel") else "preamble" if why.endswith("the file preamble") else "claim"}
                if rec.get("zone", "main") != "main":
                    sig["zone"] = rec["zone"]        # it sits in its finally block / done callback
                if rec.get("cancels"):
                    sig["survived_cancels"] = min(rec["cancels"], 2)
                self.viol("C13.victim_alive", sig,
                          f"task {label} (p{rec['tid']}) is still alive at a quiescent point {self.w.loop.vt - info['vt']:.3f}s "
                          f"after it had to die: {info['why']}"
                          + (f" (it is in its {'finally block' if rec.get('zone') == 'fin' else 'done callback'} after "
                             f"{rec.get('cancels', 0)} delivered cancellation(s))" if rec.get("zone", "main") != "main" else ""))
        # killed kill_me callers must not have progressed: checked by 'post'; dead owners must not own names
        from custom_components.pyscript.function import Function

        for name, task in Function.unique_name2task.items():
            if task.done():
                lab = self.w.label_of(task)
                if name not in self.reported_dead_owner:
                    self.reported_dead_owner.add(name)
                    self.viol("C13.name_not_released", {},
                              f"name {name} is still owned by finished task {lab} at a quiescent point")


def run(scn: dict) -> dict:
    spec = scn["spec"]
    w = World(scn["cfg"], render(scn))
    chk = Checker(w, scn)
    w.mark_hook = chk.on_mark
    progs = {p["tid"]: p for p in spec["progs"]}
    outside: list = []
    fired: list = []

    async def driver(w: World):
        await w.started()
        base = w.loop.vt
        if spec.get("layout", "flat") == "nested":
            w.probe("nested_contexts")
        w.loop.on_quiescent = chk.on_quiescent
        last_k = 0
        same_inst: dict = {}
        last_fire = None
        for op in scn["ops"]:
            target = base + 0.5 + op["k"] * GRID
            last_k = max(last_k, op["k"])
            if target > w.loop.vt:
                await w.sleep(target - w.loop.vt)
            if op["kind"] == "start":
                prog = progs.get(op["tid"])
                if prog is None:
                    continue
                same_inst[op["k"]] = same_inst.get(op["k"], 0) + 1
                if same_inst[op["k"]] == 2:
                    w.probe("same_instant_claims")
                if prog["entry"] in ("service", "create"):
                    from homeassistant.exceptions import ServiceNotFound

                    try:
                        if prog["entry"] == "service":
                            await w.call_service("pyscript", f"p{prog['tid']}", {}, blocking=False)
                        else:
                            await w.call_service("pyscript", f"spawn_{prog['ctx']}", {"tid": prog["tid"]},
                                                 blocking=False)
                    except ServiceNotFound:
                        w.probe("service_missing_during_reload")  # lenient op: precondition no longer holds
                else:
                    chk.release_dead()
                    name, kill_me = prog["dec"]
                    owner = chk.live_owner(prog["ctx"], name)
                    here = (prog["tid"], w.loop.iterations)
                    if chk.overlap(prog["ctx"], name):
                        w.probe("qualified_name_overlap")
                        chk.overlap_seen = True
                    fired.append({"tid": prog["tid"], "vt": w.loop.vt, "owner_at_fire": owner, "iter": w.loop.iterations,
                                  "owner_doomed": (owner in chk.must_die or owner in chk.maybe_die)
                                  if owner is not None else False,
                                  "overlap": bool(chk.overlap(prog["ctx"], name)),
                                  "n_before": sum(1 for r in chk.inst.values() if r["tid"] == prog["tid"])})
                    if kill_me and owner is not None:
                        w.probe("decorator_kill_me_vs_live_owner")
                    if last_fire == here:
                        w.probe("trigger_burst")  # no loop pass since the previous occurrence of this trigger
                        if kill_me:
                            w.probe("kill_me_trigger_burst")
                    last_fire = here
                    w.fire(f"go_{prog['tid']}", {})
            elif op["kind"] == "stall":
                w.loop.stall(op["s"])
                w.fault("stall")
            elif op["kind"] == "load_preamble":
                # re-load a running context's own file with a task.unique() preamble (docs: "can also be called
                # outside a function, for example in the preamble of a script file")
                ctxs = sorted({p["ctx"] for p in spec["progs"]})
                if not ctxs:
                    continue
                ctx = ctxs[0]
                w.probe("preamble_unique")
                files = render(scn)
                text = (f"sim.mark('preamble', 'pre')\ntask.unique({op['ctx_name']!r}, kill_me={op['kill_me']})\n"
                        f"sim.mark('preamble', 'done')\n" + files[ctx_path(spec, ctx)])
                chk.preamble = {"ctx": ctx, "name": op["ctx_name"], "kill_me": op["kill_me"]}
                w.write_file(ctx_path(spec, ctx), text)
                task = w.hass.async_create_task(w.reload())
                outside.append({"task": task, "op": op, "vt": w.loop.vt})
        await w.sleep(base + 0.5 + last_k * GRID + 6.0 - w.loop.vt)
        await w.drain()
        w.loop.on_quiescent = None
        chk.on_quiescent(w.loop)
        chk.doomed_ever.update(chk.must_die)
        for label, info in sorted(chk.protected.items()):
            rec = chk.inst.get(label)
            # (a task whose own termination is don't-care - it called kill_me=True against a rival that had itself
            # been asked to die - may have ended cancelled for that reason)
            if (rec is not None and rec["task"].cancelled() and label not in chk.doomed_ever
                    and label not in chk.maybe_die):
                chk.viol("C13.owner_cancelled_by_foreign_kill_me", {},
                         f"task {label} (p{rec['tid']}) owned {info['name']} when a file preamble called "
                         f"task.unique({info['name']!r}, kill_me=True) - which must do nothing - and was cancelled")
        for label, pend in sorted(chk.pending_post.items()):
            if pend["expect"] is True and pend["step"][0] == "unique":
                rec = chk.inst[label]
                sig = {"kill_me": pend["step"][2]}
                if pend.get("overlap"):
                    sig["other_context_same_spelling"] = True
                chk.viol("C13.killed_without_live_owner", sig,
                         f"p{rec['tid']} task {label}: task.unique({pend['step'][1]!r}, kill_me={pend['step'][2]}) never "
                         f"returned although no other live task owned the name"
                         + (" in its global context (a task of the other context owned a name whose dotted spelling "
                            "context.name is the same)" if pend.get("overlap") else ""))
        # ---- a program task nobody asked to die must not end cancelled (a claim in one global context never
        # touches the owner of that name in another one; a kill_me caller never costs the rightful owner its life)
        for label in sorted(chk.inst):
            rec = chk.inst[label]
            if (rec["task"].done() and rec["task"].cancelled() and label not in chk.doomed_ever
                    and label not in chk.maybe_die and label not in chk.protected):
                held = sorted(f"{c}:{n}" for (c, n), labs in chk.claimants.items() if label in labs)
                cross = any(c2 != c and n2 == n and vt >= rec["start_vt"]
                            for (c, n), labs in chk.claimants.items() if label in labs
                            for (vt, c2, n2, lab2) in chk.claim_log if lab2 != label)
                spelled = any(c2 != c and qualified(spec, c2, n2) == qualified(spec, c, n) and vt >= rec["start_vt"]
                              for (c, n), labs in chk.claimants.items() if label in labs
                              for (vt, c2, n2, lab2) in chk.claim_log + chk.cancel_log if lab2 != label)
                pattern = "other_context_same_spelling" if spelled else "cross_context" if cross else "other"
                chk.viol("C13.cancelled_unasked", {"pattern": pattern},
                         f"task {label} (p{rec['tid']}, context {rec['ctx']}, names claimed {held}) was cancelled although "
                         f"no task.unique / task.cancel in its context asked for it"
                         + (" - the same bare name was claimed in the other global context while it ran" if cross else "")
                         + (" - a name with the same dotted spelling context.name was claimed in the other global context "
                            "while it ran" if spelled else ""))
        # ---- tasks not started by pyscript must never be cancelled
        for rec in outside:
            task = rec["task"]
            if not task.done():
                await w.sleep(3.0)
            if task.cancelled() or not task.done():
                chk.viol("C13.foreign_task_cancelled", {"kill_me": rec["op"]["kill_me"]},
                         f"the pyscript.reload service call that loaded a file whose preamble calls "
                         f"task.unique({rec['op']['ctx_name']!r}, kill_me={rec['op']['kill_me']}) was "
                         f"{'cancelled' if task.cancelled() else 'never finished'}")
            elif not any(m["args"][:2] == ["preamble", "done"] and m["vt"] >= rec["vt"] for m in w.marks):
                chk.viol("C13.preamble_not_completed", {"kill_me": rec["op"]["kill_me"]},
                         "the file with a task.unique preamble did not finish loading")
        # ---- decorator form: was the run rightly prevented / started?
        for rec in fired:
            prog = progs[rec["tid"]]
            name, kill_me = prog["dec"]
            started = [r for r in chk.inst.values() if r["tid"] == rec["tid"] and r["start_vt"] >= rec["vt"] - 1e-9]
            n_started = len(started)
            same = [f for f in fired if f["tid"] == rec["tid"]]
            if len(same) > 1:
                # several occurrences of one trigger: attribution by count is ambiguous unless they form ONE burst
                # (same loop pass); a burst is judged once, as a whole: at least one occurrence must run when the
                # name is free (that more than one kill_me body runs is judged at the body's start marker)
                if any(f["iter"] != rec["iter"] for f in same) or same[0] is not rec:
                    continue
            if rec["tid"] in chk.dec_reported:
                continue
            if kill_me and rec["owner_at_fire"] is not None and not rec["owner_doomed"]:
                owner_rec = chk.inst.get(rec["owner_at_fire"])
                # the owner must still have been alive when the run would have started (a few passes later)
                still = owner_rec is not None and (not owner_rec["task"].done())
                if n_started and still:
                    chk.viol("C13.kill_me_survived", {"form": "decorator"},
                             f"p{rec['tid']} @task_unique({name!r}, kill_me=True) ran although live task "
                             f"{rec['owner_at_fire']} owned the name")
            elif rec["owner_at_fire"] is None and n_started == 0:
                # the decorator's claim happens when the run starts, a few passes after the occurrence: a rival
                # claim of the same name in that window legitimately prevents a kill_me run (don't-care)
                window = 30 * w.loop.cost + 0.25
                rival = [c for c in chk.claim_log if c[1] == prog["ctx"] and c[2] == name
                         and rec["vt"] - 1e-9 <= c[0] <= rec["vt"] + window]
                if kill_me and rival:
                    continue
                sig = {"form": "decorator", "kill_me": kill_me}
                spelled = [c for c in chk.claim_log if (c[1], c[2]) != (prog["ctx"], name)
                           and qualified(spec, c[1], c[2]) == qualified(spec, prog["ctx"], name)
                           and rec["vt"] - 1e-9 <= c[0] <= rec["vt"] + window]
                if rec.get("overlap") or spelled:
                    rec["overlap"] = True
                    sig["other_context_same_spelling"] = True
                chk.viol("C13.run_wrongly_prevented", sig,
                         f"p{rec['tid']} @task_unique({name!r}, kill_me={kill_me}) did not run although nobody owned the name"
                         + (" in its global context" if rec.get("overlap") else ""))

    w.run(driver)
    chk.finish_marks()
    chk.violations.sort(key=lambda v: v.get("t", 0.0))
    extra = {"tasks": len(chk.inst)}
    return base_result(w, chk.violations, chk.contested, extra)
