"""C09 - triggers live exactly as long as their function and leave nothing behind.

Workload: a script file with factory functions that build decorated closures (state / event / MQTT / webhook /
time startup+shutdown / periodic / @service triggers, state expressions that name several aspects of one
entity - value, .old, attribute - and several entities) kept in a dict and a list; file-level decorated
functions in separate files.  Ops: make / re-make (redefine in the same slot) / append / drop / clear /
edit+reload / delete+reload / create+reload / unload entry / set up entry again / external change of a
condition variable, each followed by settle + gc + a round of probe occurrences for every trigger kind.

Oracle: a reference model of which definitions are live.  After every settled op only live definitions run
and each runs exactly once per probe occurrence per trigger; startup/shutdown markers exactly once per
definition/removal; the census of subscriptions, listeners, services, webhooks, MQTT subscriptions, tasks and
timers is a function of the live set only (history independent) and equals the pre-setup census after unload.

Further situations:
* decorator order: a template lists its decorators either in the conventional order (triggers first, @service
  last) or in a seeded random order, so @service / @mqtt_trigger may precede other triggers of the same function.
* a context stopped while its functions are still being started: `make_racing` (a run-time definition in
  progress when the integration is unloaded / the script reloaded) and `file_edit_racing` (a file is edited and
  reloaded, and edited and reloaded again a few ms later while the functions of the first edit are still being
  started - the start of @service really suspends, see cfg["svc_params_delay_ms"]).  The superseded definition must
  never run for an occurrence afterwards and must leave nothing behind (census).
* an app in package form (apps/pa/__init__.py importing the sibling apps/pa/sub.py, both with decorated functions):
  editing either file reloads the whole app; editing the main file so that it no longer imports the sibling,
  deleting the main file or "commenting" it (rename to #__init__.py) followed by an argument-less reload removes
  everything of the app, also the functions of the sibling file that is still on disk; writing the main file again
  brings the app back.
* a decorated closure referenced only by a variable of its factory's frame, which a sibling closure (kept in a
  dict) deletes (`nonlocal fn; del fn`) or overwrites (`fn = None`): cell_make / cell_drop.
* a state expression that names a second entity (pyscript.p3) through a seeded subset of the four documented name
  forms - value, .old, attribute, .old.attribute - or lists it in watch= (kind "sx", spec["sx"]): every entity the
  trigger subscribed to must be released again, whatever names led to it.
* the new content of an edited file may be code, a comment only, or nothing at all (zero bytes), and the reload that
  follows an edit / a deletion may name the file's global context (`pyscript.reload` with `global_ctx: file.<name>`)
  instead of being argument-less: whatever the new content is, nothing of the previous content stays active.
* a definition that fails part-way - a user decorator raises while it is applied - inside try/except, followed in the
  same evaluation (the same file, the same service call, the same Jupyter cell / a later cell of the session) by an
  ordinary decorated definition: the failed definition never runs and leaves nothing, the later one is active.
* a Jupyter session (real kernel code behind a simulated TCP transport, sim.jupyter_net): cells define, redefine and
  `del` decorated functions, the front end ends the session (shutdown_request); unloading the integration
  deactivates the session's functions; a cell executed in a session that survived unload + set-up must not leave
  anything behind at the next unload.
"""

from __future__ import annotations

import asyncio
import contextvars
import copy
import json
import random

from .. import jupyter_net as N
from ..common import base_result, gen_cfg
from ..world import HarnessError, World

PROPERTY = "C09"
LEVEL = "exploration"
RULE = (
    "seeded generation of 2-4 decorator templates (subsets of 9 trigger kinds, in conventional or seeded random "
    "decorator order) and <=20 lifecycle ops over closures in containers, file-level functions and the two files of "
    "an app in package form (edit / stop importing the sibling / delete or '#'-rename the main file / restore), "
    "including stops that land while a definition or a file's functions are still being started, each followed by "
    "a probe round; a tenth trigger kind names a second entity through a seeded subset of the name forms value / "
    ".old / attribute / .old.attribute or through watch=; edited files may become comment-only or empty and reloads "
    "may name the file's context; definitions may be preceded by one that fails in a user decorator inside "
    "try/except; 35% of the runs also drive a Jupyter session (cells that define / redefine / del functions, session "
    "shutdown, cells in a session that survived unload + set-up); "
    "distinct = scenario digest; non-trivial = at least one definition was deactivated and then probed"
)
ASSUMPTIONS = [
    "after every op the harness lets the loop settle, runs gc.collect() and settles again before probing (cycle "
    "collection is not part of the property); for the same reason a file-level function whose @state_trigger has a "
    "watch= argument is not defined twice in one file: validating watch= raises and catches an exception inside "
    "voluptuous, whose traceback keeps the frames of the definition - and so the superseded function - in a "
    "reference cycle until the collector runs, which cannot be placed between two definitions of one load",
    "the census compares tables by size per key (queues/listeners per entity, event type, topic, webhook id), "
    "service names, live tasks and pending timers; State.notify_var_last is not part of it",
    "after unload the three built-in pyscript services (reload, jupyter_kernel_start, generate_stubs) are don't-care",
    "one webhook id is used by one slot only; several definitions may exist for it only transiently (redefinition)",
    "a definition whose shared service name is owned by another context ('refused') is don't-care in everything "
    "else it declares until it is redefined; at most one file declares the shared name at a time (two files "
    "declaring it and starting together race for it, the property does not decide the winner)",
    "startup/shutdown markers of a definition whose context was stopped while it was being defined are don't-care; "
    "it must never run for an occurrence afterwards",
    "the same holds for the first of two edits of a file that are reloaded a few ms apart (file_edit_racing): whether "
    "the superseded definition got as far as its startup run is not decided; it must not run for any occurrence after "
    "the second reload has settled and must leave nothing in the census",
    "an app is reloaded as a whole when one of its files changes (docs, 'Reloading Scripts'): every function of the "
    "app is then a new definition (shutdown of the old one, startup of the new one); the sibling file of the app "
    "package is loaded only through the main file's import, so it is live exactly while the main file is present, "
    "configured and imports it; the files of the app never declare the shared service name",
    "steer (cfg['steer'], half of the runs): a definition that is stopped while it is being started (make_racing + "
    "script reload, file_edit_racing) does not list @service before the shared service name - finding "
    "C09.unstarted_stop on the unchanged code: DecoratorManager.stop() also stops decorators that start() has not "
    "reached yet, and ServiceDecorator.stop() removes the service name without having registered it, which takes "
    "away the registration of another live function; the other half of the runs keeps judging it",
    "steer (cfg['steer'], same coin): the variable of the factory's frame that holds a closure (cell_make) is only "
    "overwritten, never deleted with `del` - finding C09.cell_del on the unchanged code: `del` of a variable captured "
    "by a sibling closure marks it undefined but keeps the function object, so its triggers stay active; the other "
    "half of the runs keeps judging it",
    "kind 'sx': the second entity pyscript.p3 is never changed by the probe round, and a change of it could not make "
    "the expression true (pyscript.p0 is '0' between probe rounds), so whether an entity named only as "
    "pyscript.p3.old / pyscript.p3.old.a3 is watched at all is not judged - only that whatever was subscribed is "
    "released (census); watch= lists only the documented forms (entity names and attributes)",
    "a reload that names a global context is only issued right after the write / deletion of that very file, so no "
    "other change is pending (the documentation says other changes are ignored by such a reload)",
    "Jupyter: the kernel's own tasks and listening sockets are not part of the census that is compared with the "
    "pre-setup state (the documentation says sessions are not affected by reload and does not say what unload does "
    "to the session itself); the functions of the session are: unload deactivates them",
    "Jupyter: a function defined by a cell of a session that survived unload + set-up is don't-care in everything it "
    "declares (the documentation does not say whether such a session is still usable) - but after the next unload "
    "Home Assistant must be back to its baseline, and nothing of it may run after that; no cell is executed while "
    "the integration is unloaded; Jupyter cells never declare the shared service name",
]
TIERS = {
    "quick": {"runs": 500, "chunk": 17},
    # (a chunk's wall time must stay well below the 600 s chunk timeout also on a busy machine)
    "thorough": {"runs": 20000, "chunk": 60},
}
REACH_PROBES = ["redefined_in_slot", "closure_dropped_from_container", "container_cleared", "file_reloaded", "file_deleted",
                "unloaded_and_compared", "setup_again", "several_names_one_entity", "same_live_set_seen_twice",
                "stale_condition_probe", "periodic_trigger_removed", "webhook_redefined",
                "stop_while_definition_in_progress", "shared_service_name_refused", "function_defined_twice_in_one_file",
                "definition_dropped_at_once", "service_listed_before_other_trigger",
                "file_reloaded_again_while_starting", "context_stopped_while_service_start_suspended",
                "stopped_service_start_had_more_decorators_to_start", "app_package_loaded", "app_file_edited",
                "app_main_deleted_sibling_on_disk", "app_main_commented_sibling_on_disk", "app_sibling_no_longer_imported",
                "app_restored", "unstarted_service_of_stopped_function_names_live_service",
                "closure_referenced_by_cell_only", "cell_variable_deleted", "cell_variable_overwritten",
                "second_entity_named_in_state_expression", "entity_named_only_as_old_attribute",
                "entity_named_only_through_old_forms", "entity_listed_in_watch", "definition_naming_second_entity_removed",
                "file_reloaded_by_name", "file_emptied", "file_emptied_and_reloaded_by_name", "file_comment_only",
                "file_deleted_and_reloaded_by_name", "definition_after_failed_decorator_call",
                "file_definition_after_failed_decorator_call", "jupyter_session_started", "jupyter_cell_defined_function",
                "jupyter_function_redefined", "jupyter_function_deleted", "jupyter_session_shut_down",
                "jupyter_functions_unloaded", "jupyter_cell_after_unload_and_setup",
                "jupyter_cell_after_failed_decorator_call", "jupyter_stale_definition_unloaded"]
# probes that describe the situation of a repaired defect (C09-F9); they can only fire while it is present
SYMPTOM_PROBES = ["unstarted_service_of_stopped_function_names_live_service"]
SHRINK_LISTS = [["ops"], ["spec", "templates"]]

KINDS = ["ev", "st", "st2", "sx", "time", "per", "mqtt", "hook", "svc", "shr"]
SX_FORMS = ["v", "old", "attr", "old_attr"]  # the documented names of an entity inside a state expression
SLOTS = ["a", "b", "c"]
FILES = ["ga", "gb"]
APP = "pa"                       # the app in package form: apps/pa/__init__.py + apps/pa/sub.py
APP_KEYS = ["app_main", "app_sub"]
APP_MAIN = f"pyscript/apps/{APP}/__init__.py"
APP_MAIN_COMMENTED = f"pyscript/apps/{APP}/#__init__.py"
APP_SUB = f"pyscript/apps/{APP}/sub.py"


# ------------------------------------------------------------------ generation
def gen(rng: random.Random, tier: str) -> dict:
    cfg = gen_cfg(rng)
    cfg["drift"] = 0.0
    # injected suspension inside ServiceDecorator.start() (see World): 0 = none
    cfg["svc_params_delay_ms"] = rng.choice([0, 0, 2.0, 8.0, 40.0])
    # which refreshes of the service-description cache suspend: every one ("all": also the one the reload handler
    # makes before it stops anything) or only those made on behalf of a starting @service ("start_only": the cache
    # is warm for everything but the service that has just been registered)
    cfg["svc_delay_where"] = rng.choice(["all", "start_only", "start_only"])
    # steer (half of the runs): the racing ops do not use a template that lists @service before the shared service
    # name (finding C09.unstarted_stop on the unchanged code); see normalize()
    cfg["steer"] = rng.random() < 0.5
    templates = []
    for _ in range(rng.randint(2, 4)):
        kinds = rng.sample(KINDS, rng.choice([1, 2, 2, 3, 4]))
        if rng.random() < 0.5:
            kinds = sorted(kinds, key=KINDS.index)  # the conventional order: triggers first, @service last
        templates.append(kinds)
    files = {}
    for name in FILES:
        if rng.random() < 0.6:
            files[name] = rng.randrange(len(templates))
    redef = [name for name in FILES if rng.random() < 0.25]
    app = None
    if rng.random() < 0.4:
        app = {"main": rng.randrange(len(templates)), "sub": rng.randrange(len(templates)),
               "imports": rng.random() < 0.9}
    # kind "sx": the name forms through which its state expression mentions the second entity, or a watch= list/set
    sx = {"forms": sorted(rng.sample(SX_FORMS, rng.choice([1, 1, 1, 2, 3])), key=SX_FORMS.index),
          "watch": rng.choice([False, False, False, "list", "set"])}
    if rng.random() < 0.3:
        sx["forms"] = [rng.choice(["old_attr", "old_attr", "old"])]
    # files whose decorated function is preceded by a definition that fails in a user decorator (inside try/except)
    failfirst = [name for name in FILES if rng.random() < 0.15]
    fail_pos = rng.choice(["top", "top", "bottom"])
    jup = rng.random() < 0.35  # this run also drives a Jupyter session
    racing_ms = [0, 0.1, 0.4, 1, 3, 10, 25]
    # templates whose start really suspends (the injected suspension is inside the start of @service)
    suspending = [i for i, kinds in enumerate(templates) if "svc" in kinds or "shr" in kinds]
    ops = []
    n_list = 0
    cell_slots: set = set()
    for _ in range(rng.randint(4, 20 if tier == "thorough" else 14)):
        roll = rng.random()
        tmpl = rng.randrange(len(templates))
        if roll >= 0.86 and roll < 0.97 and suspending and rng.random() < 0.6:
            tmpl = rng.choice(suspending)  # the racing ops below: prefer a definition that can be caught in progress
        if roll < 0.07 and app is not None:
            # the app package: edit one of its files / remove the main file (the sibling stays on disk)
            sub = rng.random()
            gone = next((op["kind"] == "app_remove_main" for op in reversed(ops)
                         if op["kind"] in ("app_remove_main", "app_edit") and op.get("part", "main") == "main"), False)
            if sub < (0.65 if gone else 0.3):
                # (after the main file was removed: more often written again, which brings the app back)
                ops.append({"kind": "app_edit", "part": "main", "tmpl": tmpl, "imports": rng.random() < 0.75})
            elif sub < (0.8 if gone else 0.5):
                ops.append({"kind": "app_edit", "part": "sub", "tmpl": tmpl})
            else:
                ops.append({"kind": "app_remove_main", "how": rng.choice(["delete", "comment"])})
        elif jup and 0.10 <= roll < 0.30:
            sub = rng.random()

            def cell():
                # a cell that defines (or redefines) a decorated function; "fresh": if the session has survived an
                # unload, shut it down and start a new one first (otherwise the surviving session is used)
                ops.append({"kind": "jup_make", "slot": rng.choice(SLOTS[:2]), "tmpl": tmpl, "fresh": rng.random() < 0.3})
                if rng.random() < 0.15:
                    ops[-1]["after_failed"] = True

            used = sorted({op["slot"] for op in ops if op["kind"] == "jup_make"})
            if sub < 0.40 or not used:
                cell()
            elif sub < 0.55:
                ops.append({"kind": "jup_del", "slot": rng.choice(used)})
            elif sub < 0.70:
                ops.append({"kind": "jup_end"})
            else:
                # the config entry is unloaded and set up again while the front end stays connected
                ops.append({"kind": "unload"})
                ops.append({"kind": "setup"})
                if rng.random() < 0.7:
                    cell()
                    if rng.random() < 0.5:
                        ops.append({"kind": "unload"})  # ... and once more, after a cell of the surviving session
                        ops.append({"kind": "setup"})
        elif roll < 0.30:
            ops.append({"kind": "make", "slot": rng.choice(SLOTS), "tmpl": tmpl})
            if rng.random() < 0.12:
                ops[-1]["after_failed"] = True
        elif roll < 0.34:
            # the decorated closure is referenced only by a variable of its factory's frame (a cell), which a sibling
            # closure kept in a dict can delete or overwrite
            ops.append({"kind": "cell_make", "slot": rng.choice(SLOTS), "tmpl": tmpl})
            cell_slots.add(ops[-1]["slot"])
        elif roll < 0.39:
            n_list += 1
            ops.append({"kind": "append", "tmpl": tmpl})
            if rng.random() < 0.12:
                ops[-1]["after_failed"] = True
        elif roll < 0.42:
            # a decorated closure is created and its only reference dropped at once, in the same call
            ops.append({"kind": "make_lost", "tmpl": tmpl})
        elif roll < 0.50:
            ops.append({"kind": "drop", "slot": rng.choice(SLOTS)})
        elif roll < 0.53:
            ops.append({"kind": "cell_drop", "slot": rng.choice(sorted(cell_slots) or SLOTS),
                        "how": rng.choice(["del", "rebind"])})
        elif roll < 0.57:
            ops.append({"kind": "clear"})
        elif roll < 0.65:
            ops.append({"kind": "file_edit", "name": rng.choice(FILES), "tmpl": tmpl})
            sub = rng.random()
            if sub < 0.26:
                # the file stays but nothing is left in it: zero bytes, or only a comment
                ops[-1]["content"] = "empty" if sub < 0.18 else "comment"
            if rng.random() < 0.5:
                ops[-1]["reload"] = "name"  # pyscript.reload with global_ctx: file.<name>
        elif roll < 0.69:
            ops.append({"kind": "file_delete", "name": rng.choice(FILES)})
            if rng.random() < 0.5:
                ops[-1]["reload"] = "name"
        elif roll < 0.74:
            ops.append({"kind": "reload"})
        elif roll < 0.81:
            ops.append({"kind": "unload"})
            ops.append({"kind": "set_p2", "s": rng.choice(["zz", "ok", "zz"])})
            ops.append({"kind": "setup"})
        elif roll < 0.86:
            ops.append({"kind": "set_p2", "s": rng.choice(["zz", "ok", "q"])})
        elif roll < 0.93:
            # a run-time definition that is still in progress (service call issued, not awaited) when its context is
            # stopped: by unloading the integration or by reloading the edited script that holds the containers
            then = rng.choice(["unload", "main_reload"])
            ops.append({"kind": "make_racing", "slot": rng.choice(SLOTS), "tmpl": tmpl, "then": then,
                        "after_ms": rng.choice(racing_ms)})
            if then == "unload":
                ops.append({"kind": "setup"})
        elif roll < 0.97:
            # a file is edited and reloaded, and edited and reloaded again while the functions of the first edit
            # are still being started
            ops.append({"kind": "file_edit_racing", "name": rng.choice(FILES), "tmpl": tmpl,
                        "tmpl2": rng.randrange(len(templates)), "after_ms": rng.choice(racing_ms)})
        else:
            ops.append({"kind": "stall", "s": rng.choice([0.05, 0.5])})
    return normalize({"cfg": cfg, "spec": {"templates": templates, "files": files, "redef": redef, "app": app,
                                           "sx": sx, "failfirst": failfirst, "fail_pos": fail_pos},
                      "ops": ops})


# ------------------------------------------------------------------ rendering
SX_NAME = {"v": "pyscript.p3", "old": "pyscript.p3.old", "attr": "pyscript.p3.a3", "old_attr": "pyscript.p3.old.a3"}
SX_TERM = {"v": "pyscript.p3 != 'zz'", "old": "pyscript.p3.old != 'zz'", "attr": "pyscript.p3.a3 != 5",
           "old_attr": "pyscript.p3.old.a3 != 5"}


def _sx_forms(sx: dict | None) -> list:
    sx = sx or {}
    forms = [f for f in sx.get("forms") or ["old_attr"] if f in SX_FORMS]
    if sx.get("watch"):
        forms = [f for f in forms if f in ("v", "attr")] or ["attr"]  # watch=: entity names and attributes only
    return forms or ["old_attr"]


def _sx_decorator(sx: dict | None) -> str:
    """State trigger on pyscript.p0 whose expression (or watch=) also names the second entity pyscript.p3; every
    term on pyscript.p3 is true for its constant state 'ok' / a3=1 and for None."""
    forms = _sx_forms(sx)
    how = (sx or {}).get("watch")
    if how:
        names = ", ".join(repr(n) for n in ["pyscript.p0"] + [SX_NAME[f] for f in forms])
        lit = "[" + names + "]" if how == "list" else "{" + names + "}"
        return f"@state_trigger(\"pyscript.p0 == '1'\", watch={lit})"
    return "@state_trigger(\"pyscript.p0 == '1' and " + " and ".join(SX_TERM[f] for f in forms) + "\")"


def _decorators(kinds: list, slot_expr: str, sx: dict | None = None) -> list[str]:
    out = []
    for kind in kinds:
        if kind == "sx":
            out.append(_sx_decorator(sx))
        elif kind == "ev":
            out.append("@event_trigger('probe_ev')")
        elif kind == "st":
            out.append("@state_trigger(\"pyscript.p0 == '1' and pyscript.p0.old == '0' and pyscript.p0.a0 != 5\", 'pyscript.p1.a1')")
        elif kind == "st2":
            out.append("@state_trigger(\"pyscript.p0 == '1' and pyscript.p2 != 'zz'\")")
        elif kind == "time":
            out.append("@time_trigger('startup', 'shutdown')")
        elif kind == "per":
            out.append("@time_trigger('period(now + 0.5s, 1s)')")
        elif kind == "mqtt":
            out.append("@mqtt_trigger('t/probe')")
        elif kind == "hook":
            out.append(f"@webhook_trigger('hook_' + {slot_expr})")
        elif kind == "svc":
            out.append(f"@service('pyscript.svc_' + {slot_expr})")
        elif kind == "shr":
            # one service name wanted by every definition that has this kind: the first context to declare it owns it
            out.append("@service('pyscript.svc_shared')")
    return out


OLD_GEN = 1000  # generation numbers >= OLD_GEN: the first of two same-named definitions in one file


BAD_DECO = ["def bad_deco(func):", "    raise ValueError('bad decorator')", ""]


def _failed_def(kinds: list, slot_expr: str, mark_key: str, gen_expr: str, tmpl_idx: int, sx, pos: str, ind: str) -> list:
    """A decorated definition that fails part-way - the user decorator bad_deco raises while it is applied - and is
    caught by the script.  It is never bound to a name: it must never run and must leave nothing behind."""
    decs = _decorators(kinds, slot_expr, sx)
    decs = decs + ["@bad_deco"] if pos == "bottom" else ["@bad_deco"] + decs
    return ([ind + "try:"] + [ind + "    " + d for d in decs]
            + [ind + "    def victim(**kw):",
               ind + f"        sim.mark('run', {mark_key}, {gen_expr}, {tmpl_idx}, kw.get('trigger_type'), kw.get('trigger_time'), kw.get('var_name'))",
               ind + "except ValueError:",
               ind + "    pass"])


def _file_src(name: str, tmpl_idx: int, kinds: list, gen_no: int, redef: bool = False, spec: dict | None = None) -> str:
    spec = spec or {}
    sx = spec.get("sx")
    lines = [f"# generation {gen_no}", f"SLOT = 'file_{name}'"]
    if name in (spec.get("failfirst") or []):
        lines += BAD_DECO + _failed_def(kinds, "'V' + SLOT", "'V' + SLOT", str(gen_no), tmpl_idx, sx,
                                        spec.get("fail_pos", "top"), "") + [""]
    if redef and "sx" in kinds and (sx or {}).get("watch"):
        # (the validation of a watch= argument leaves the frames of the definition in a reference cycle - an exception
        # caught inside voluptuous - so the superseded definition of the same load would stay referenced until the
        # cycle collector runs: cycle collection is not part of the property, see ASSUMPTIONS)
        redef = False
    if redef:
        # the same function is defined twice in the file: only the second definition is referenced once the file
        # has loaded, so only it may be active
        lines += _decorators(kinds, "SLOT", sx)
        lines += [f"def top_{name}(**kw):",
                  f"    sim.mark('run', 'file_{name}', {OLD_GEN + gen_no}, {tmpl_idx}, kw.get('trigger_type'), kw.get('trigger_time'), kw.get('var_name'))",
                  ""]
    lines += _decorators(kinds, "SLOT", sx)
    lines += [f"def top_{name}(**kw):",
              f"    sim.mark('run', 'file_{name}', {gen_no}, {tmpl_idx}, kw.get('trigger_type'), kw.get('trigger_time'), kw.get('var_name'))",
              ""]
    return "\n".join(lines) + "\n"


def _file_text(name: str, op_content: str, tmpl_idx: int, kinds: list, gen_no: int, redef: bool, spec: dict) -> str:
    """The new content of an edited file: code, zero bytes, or a comment only."""
    if op_content == "empty":
        return ""
    if op_content == "comment":
        return f"# generation {gen_no}: nothing left in here\n"
    return _file_src(name, tmpl_idx, kinds, gen_no, redef, spec)


def _app_src(part: str, tmpl_idx: int, kinds: list, gen_no: int, imports: bool = True, sx: dict | None = None) -> str:
    """One of the two files of the app package: the main file (imports the sibling unless told not to) or the sibling."""
    key = f"app_{part}"
    lines = [f"# generation {gen_no}"]
    if part == "main" and imports:
        lines.append("from .sub import helper")
    lines.append(f"SLOT = '{key}'")
    if part == "sub":
        lines += ["", "def helper():", "    return 17", ""]
    lines += _decorators(kinds, "SLOT", sx)
    lines += [f"def top_{key}(**kw):",
              f"    sim.mark('run', '{key}', {gen_no}, {tmpl_idx}, kw.get('trigger_type'), kw.get('trigger_time'), kw.get('var_name'))",
              ""]
    return "\n".join(lines) + "\n"


def render(scn: dict) -> dict:
    spec = scn["spec"]
    sx = spec.get("sx")
    lines = ["holder = {}", "lst = []", ""]
    for idx, kinds in enumerate(spec["templates"]):
        lines.append(f"def fact{idx}(slot, gen):")
        for dec in _decorators(kinds, "slot", sx):
            lines.append("    " + dec)
        lines.append("    def fn(**kw):")
        lines.append(f"        sim.mark('run', slot, gen, {idx}, kw.get('trigger_type'), kw.get('trigger_time'), kw.get('var_name'))")
        lines.append("    return fn")
        lines.append("")
    cells = any(op["kind"] == "cell_make" for op in scn["ops"])
    failing = any(op.get("after_failed") and op["kind"] in ("make", "append") for op in scn["ops"])
    if cells:
        lines += ["cells = {}", ""]
        for idx, kinds in enumerate(spec["templates"]):
            lines.append(f"def cell{idx}(slot, gen):")
            for dec in _decorators(kinds, "slot", sx):
                lines.append("    " + dec)
            lines.append("    def fn(**kw):")
            lines.append(f"        sim.mark('run', slot, gen, {idx}, kw.get('trigger_type'), kw.get('trigger_time'), kw.get('var_name'))")
            lines += ["    def dropper(how):",
                      "        nonlocal fn",
                      "        if how == 'del':",
                      "            del fn",
                      "        else:",
                      "            fn = None",
                      "    return dropper",
                      ""]
    if failing:
        lines += BAD_DECO
        for idx, kinds in enumerate(spec["templates"]):
            lines.append(f"def failing{idx}(slot, gen):")
            lines += _failed_def(kinds, "'V' + slot", "'V' + slot", "gen", idx, sx, spec.get("fail_pos", "top"), "    ")
            lines.append("")
    lines += ["@service", "def lifecycle(cmd=None, slot=None, gen=None, tmpl=None, how=None, pre=None):",
              "    fn = None"]
    for idx in range(len(spec["templates"])):
        if failing:
            # the definition that fails and the ordinary one that follows are evaluated by the same service call
            lines.append(f"    if tmpl == {idx} and pre == 'fail':")
            lines.append(f"        failing{idx}(slot, gen)")
        lines.append(f"    if tmpl == {idx} and cmd in ('make', 'append', 'lost'):")
        lines.append(f"        fn = fact{idx}(slot, gen)")
        if cells:
            lines.append(f"    if tmpl == {idx} and cmd == 'cell_make':")
            lines.append(f"        fn = cell{idx}(slot, gen)")
    lines += ["    if cmd == 'make':",
              "        holder[slot] = fn",
              "    elif cmd == 'append':",
              "        lst.append(fn)",
              "    elif cmd == 'drop':",
              "        holder.pop(slot, None)",
              "    elif cmd == 'clear':",
              "        holder.clear()",
              "        lst.clear()"]
    if cells:
        lines += ["        cells.clear()",
                  "    elif cmd == 'cell_make':",
                  "        cells[slot] = fn",
                  "    elif cmd == 'cell_drop':",
                  "        cells[slot](how)"]
    lines += ["    fn = None",
              ""]
    files = {"pyscript/c09.py": "\n".join(lines) + "\n"}
    for name, tmpl in spec["files"].items():
        if tmpl < len(spec["templates"]):
            files[f"pyscript/g_{name}.py"] = _file_src(name, tmpl, spec["templates"][tmpl], 0,
                                                       name in spec.get("redef", []), spec)
    app = spec.get("app")
    if app:
        tmpls = spec["templates"]
        files[APP_MAIN] = _app_src("main", app["main"], tmpls[app["main"]], 0, app.get("imports", True), sx)
        files[APP_SUB] = _app_src("sub", app["sub"], tmpls[app["sub"]], 0, sx=sx)
    return files


def _cell_src(key: str, fname: str, tmpl_idx: int, kinds: list, gen_no: int, spec: dict, after_failed: bool) -> str:
    """A Jupyter cell that defines the decorated function ``fname`` (optionally after a definition that fails)."""
    lines = []
    if after_failed:
        lines += BAD_DECO + _failed_def(kinds, repr("V" + key), repr("V" + key), str(gen_no), tmpl_idx, spec.get("sx"),
                                        spec.get("fail_pos", "top"), "") + [""]
    lines += _decorators(kinds, repr(key), spec.get("sx"))
    lines += [f"def {fname}(**kw):",
              f"    sim.mark('run', {key!r}, {gen_no}, {tmpl_idx}, kw.get('trigger_type'), kw.get('trigger_time'), kw.get('var_name'))"]
    return "\n".join(lines) + "\n"


def normalize(scn: dict) -> dict | None:
    n = len(scn["spec"]["templates"])
    if n == 0:
        return None
    for op in scn["ops"]:
        for fld in ("tmpl", "tmpl2"):
            if fld in op and op[fld] >= n:
                op[fld] = op[fld] % n
    scn["spec"]["files"] = {k: v % n for k, v in scn["spec"]["files"].items()}
    # at most one *file* declares the shared service name at any time: when two files that both declare it start
    # together (set-up, start of Home Assistant) which of them gets the name is a race the property does not decide
    tmpls = scn["spec"]["templates"]
    files = scn["spec"]["files"]
    plain = [i for i, kinds in enumerate(tmpls) if "shr" not in kinds]
    holders = [name for name in sorted(files) if "shr" in tmpls[files[name]]]
    for name in holders[1:]:
        if plain:
            files[name] = plain[0]
        else:
            del files[name]
    # the files of the app never declare the shared name (they start together with the other files)
    app = scn["spec"].get("app")
    if app:
        for part in ("main", "sub"):
            app[part] = app[part] % n
            if "shr" in tmpls[app[part]]:
                if plain:
                    app[part] = plain[0]
                else:
                    app = scn["spec"]["app"] = None
                    break
    def hazard(idx):
        kinds = tmpls[idx]
        return "svc" in kinds and "shr" in kinds and kinds.index("svc") < kinds.index("shr")

    cur = dict(files)
    ops = []
    for op in scn["ops"]:
        if scn["cfg"].get("steer") and op["kind"] in ("make_racing", "file_edit_racing") and hazard(op["tmpl"]):
            # steered away from finding C09.unstarted_stop: the definition that is stopped while it is being started
            # does not list @service before the shared service name
            safe = [i for i in range(n) if not hazard(i)]
            if safe:
                op["tmpl"] = safe[0]
            elif op["kind"] == "make_racing" and op["then"] == "main_reload":
                op = {"kind": "make", "slot": op["slot"], "tmpl": op["tmpl"]}
            elif op["kind"] == "file_edit_racing":
                op = {"kind": "file_edit", "name": op["name"], "tmpl": op["tmpl2"]}
            # (make_racing + unload: everything is unloaded, nothing live is left to lose its service)
        if scn["cfg"].get("steer") and op["kind"] == "cell_drop" and op.get("how") == "del":
            op["how"] = "rebind"  # steered away from finding C09.cell_del
        if op["kind"] in ("jup_make",) and "shr" in tmpls[op["tmpl"]]:
            if not plain:
                continue
            op["tmpl"] = plain[0]  # Jupyter cells never declare the shared service name
        if op["kind"] == "file_edit" and op.get("content", "code") != "code":
            cur.pop(op["name"], None)  # the file stays, nothing is left in it
        elif op["kind"] in ("file_edit", "file_edit_racing"):
            other = [n for n in cur if n != op["name"] and "shr" in tmpls[cur[n]]]
            drop = False
            for fld in ("tmpl", "tmpl2"):
                if fld in op and "shr" in tmpls[op[fld]] and other:
                    if not plain:
                        drop = True
                        break
                    op[fld] = plain[0]
            if drop:
                continue
            cur[op["name"]] = op.get("tmpl2", op["tmpl"])
        elif op["kind"] == "file_delete":
            cur.pop(op["name"], None)
        elif op["kind"] in ("app_edit", "app_remove_main"):
            if not app:
                continue
            if "tmpl" in op and "shr" in tmpls[op["tmpl"]]:
                if not plain:
                    continue
                op["tmpl"] = plain[0]
        ops.append(op)
    scn["ops"] = ops
    return scn


def simplify(scn: dict):
    for ti, kinds in enumerate(scn["spec"]["templates"]):
        if len(kinds) > 1:
            for ki in range(len(kinds)):
                cand = copy.deepcopy(scn)
                del cand["spec"]["templates"][ti][ki]
                yield cand
    for name in list(scn["spec"]["files"]):
        cand = copy.deepcopy(scn)
        del cand["spec"]["files"][name]
        yield cand
    for name in list(scn["spec"].get("redef", [])):
        cand = copy.deepcopy(scn)
        cand["spec"]["redef"].remove(name)
        yield cand
    for ti, kinds in enumerate(scn["spec"]["templates"]):
        if kinds != sorted(kinds, key=KINDS.index):
            cand = copy.deepcopy(scn)
            cand["spec"]["templates"][ti] = sorted(kinds, key=KINDS.index)  # the conventional decorator order
            yield cand
    if scn["spec"].get("app"):
        cand = copy.deepcopy(scn)
        cand["spec"]["app"] = None
        yield normalize(cand)  # drops the app ops
    sx = scn["spec"].get("sx") or {}
    if sx.get("watch"):
        cand = copy.deepcopy(scn)
        cand["spec"]["sx"]["watch"] = False
        yield cand
    for form in sx.get("forms") or []:
        if len(sx["forms"]) > 1:
            cand = copy.deepcopy(scn)
            cand["spec"]["sx"]["forms"].remove(form)
            yield cand
    for name in list(scn["spec"].get("failfirst") or []):
        cand = copy.deepcopy(scn)
        cand["spec"]["failfirst"].remove(name)
        yield cand
    for oi, op in enumerate(scn["ops"]):
        cand = None
        if op["kind"] == "file_edit_racing":
            cand = copy.deepcopy(scn)
            cand["ops"][oi] = {"kind": "file_edit", "name": op["name"], "tmpl": op["tmpl2"]}
        elif op["kind"] == "make_racing" and op["then"] == "main_reload":
            cand = copy.deepcopy(scn)
            cand["ops"][oi] = {"kind": "make", "slot": op["slot"], "tmpl": op["tmpl"]}
        elif op["kind"] == "cell_make":
            cand = copy.deepcopy(scn)
            cand["ops"][oi] = {"kind": "make", "slot": op["slot"], "tmpl": op["tmpl"]}
        elif op["kind"] == "cell_drop" and op["how"] == "del":
            cand = copy.deepcopy(scn)
            cand["ops"][oi]["how"] = "rebind"
        elif op["kind"] == "app_remove_main" and op["how"] == "comment":
            cand = copy.deepcopy(scn)
            cand["ops"][oi]["how"] = "delete"
        elif op["kind"] == "app_edit" and op["part"] == "main" and not op.get("imports", True):
            cand = copy.deepcopy(scn)
            cand["ops"][oi]["imports"] = True
        if cand is not None:
            yield cand
        for fld, val in (("after_failed", None), ("content", None), ("reload", None), ("fresh", None)):
            if op.get(fld):
                cand = copy.deepcopy(scn)
                del cand["ops"][oi][fld]
                yield normalize(cand)
        if op.get("after_ms"):
            cand = copy.deepcopy(scn)
            cand["ops"][oi]["after_ms"] = 0
            yield cand
    for key, val in (("timer_late_ms", 0.0), ("cost_us", 50), ("exec_latency_ms", [0.0, 0.0]), ("set_order_salt", 0),
                     ("svc_params_delay_ms", 0), ("svc_delay_where", "all")):
        if scn["cfg"].get(key) != val:
            cand = copy.deepcopy(scn)
            cand["cfg"][key] = val
            yield cand


def warmup() -> None:
    scn = gen(random.Random(2), "quick")
    scn["ops"] = scn["ops"][:2]
    run(scn)


# ------------------------------------------------------------------ run
CENSUS_KEYS = ("listeners", "services", "webhooks", "mqtt_subs", "event_notify", "mqtt_notify",
               "webhook_notify", "our_tasks", "task2cb", "task2context", "unique_name2task", "service_cnt")
BUILTIN_SERVICES = {"reload", "jupyter_kernel_start", "generate_stubs"}


def _census(w: World, kernel_alive: bool = False) -> dict:
    import asyncio

    cen = w.census()
    out = {k: cen[k] for k in CENSUS_KEYS}
    out["state_notify"] = {k: v for k, v in cen["state_notify"].items() if v}
    if not kernel_alive:
        # (while a Jupyter kernel is up its own tasks come and go - start-up timer, connections - so the number of
        # tasks is compared only when no kernel exists)
        out["all_tasks"] = sum(1 for t in asyncio.all_tasks(w.loop) if not t.done())
    return out


def _diff(a: dict, b: dict) -> dict:
    out = {}
    for key in a:
        if a[key] != b.get(key):
            va, vb = a[key], b.get(key)
            if isinstance(va, dict) and isinstance(vb, dict):
                out[key] = [{k: v for k, v in va.items() if vb.get(k) != v}, {k: v for k, v in vb.items() if va.get(k) != v}]
            else:
                out[key] = [va, vb]
    return out


class C09World(World):
    """World + observation (reach probes only, no behaviour change) of a context stopped while the start of one of
    its @service decorators is suspended."""

    def extra_patches(self) -> list:
        from unittest.mock import patch

        self.c09_flags: dict = {}

        from custom_components.pyscript.decorators.service import ServiceDecorator
        from custom_components.pyscript.global_ctx import GlobalContext

        world = self
        starting: list = []  # @service decorators whose start() is in progress
        orig_start = ServiceDecorator.start
        orig_stop = GlobalContext.stop
        in_start = contextvars.ContextVar("c09_in_service_start", default=False)
        out = []
        start_ms = float(self.cfg.get("svc_start_delay_ms") or 0.0)
        if start_ms > 0:
            # the same legal suspension as World's cfg["svc_params_delay_ms"], but only for the refresh a starting
            # @service makes (every other refresh finds the cache warm)
            from custom_components.pyscript.state import State

            orig_gsp = State.get_service_params

            async def slow_in_start():
                if in_start.get():
                    world.fault("slow_service_description_load")
                    await asyncio.sleep(start_ms / 1000.0)
                return await orig_gsp()

            out.append(patch.object(State, "get_service_params", staticmethod(slow_in_start)))

        async def start(dec):
            starting.append(dec)
            token = in_start.set(True)
            try:
                return await orig_start(dec)
            finally:
                in_start.reset(token)
                starting.remove(dec)

        def stop(ctx):
            from custom_components.pyscript.function import Function

            for dec in starting:
                if any(dm is dec.dm for dm in ctx.dms):
                    world.probe("context_stopped_while_service_start_suspended")
                    decs = dec.dm.get_decorators()
                    pos = [i for i, d in enumerate(decs) if d is dec]
                    later = decs[pos[0] + 1:] if pos else []
                    if later:
                        world.probe("stopped_service_start_had_more_decorators_to_start")
                    for other in later:
                        # a @service further down the list that has not been started: is its name registered by
                        # somebody else right now?  (observation for the signature of finding C09.unstarted_stop)
                        if isinstance(other, ServiceDecorator) and any(
                                Function.service_cnt.get(f"{dom}.{name}", 0) > 0 for dom, name in other.args):
                            world.probe("unstarted_service_of_stopped_function_names_live_service")
                            world.c09_flags["unstarted_service_names_live_service"] = True
            return orig_stop(ctx)

        self.net = None
        if self.cfg.get("c09_jup"):
            # the TCP seam of the Jupyter kernel (asyncio.start_server) + deterministic uuid / datetime inside it
            import types
            import uuid as _uuid

            import custom_components.pyscript.jupyter_kernel as jk

            self.net = N.SimNet(lambda: self.loop.vt)
            seq = [0]

            def uuid4():
                seq[0] += 1
                return _uuid.UUID(int=(0xC09 << 96) | seq[0])

            dt_shim = types.SimpleNamespace(datetime=types.SimpleNamespace(now=lambda: world.clock.local_naive()))
            out += [patch("custom_components.pyscript.jupyter_kernel.asyncio.start_server", self.net.start_server),
                    patch.object(jk, "uuid", types.SimpleNamespace(uuid4=uuid4)),
                    patch.object(jk, "datetime", dt_shim)]
        return out + [patch.object(ServiceDecorator, "start", start), patch.object(GlobalContext, "stop", stop)]


JUP_KEY = "c09-secret-key"
JUP_CHANNELS = [("iopub", "iopub_port", b"SUB"), ("hb", "hb_port", b"REQ"), ("control", "control_port", b"DEALER"),
                ("stdin", "stdin_port", b"DEALER"), ("shell", "shell_port", b"DEALER")]


class JupSession:
    """A front end attached to one kernel session: the harness' own ZMTP / Jupyter wire client (sim.jupyter_net)."""

    def __init__(self, w: "C09World", no: int) -> None:
        self.w = w
        self.no = no
        self.conns: dict = {}
        self.n_req = 0
        self.stale = False   # the integration was unloaded while the session was open
        self.failed_once = False  # a cell contained a definition that failed in a decorator call
        self.ctx_name = None

    async def start(self) -> None:
        from custom_components.pyscript.global_ctx import GlobalContextMgr

        w = self.w
        var = f"pyscript.c09_jup{self.no}"
        before = set(GlobalContextMgr.contexts)
        await w.call_service("pyscript", "jupyter_kernel_start",
                             {"ip": "127.0.0.1", "key": JUP_KEY, "signature_scheme": "hmac-sha256", "state_var": var,
                              "transport": "tcp"})
        await w.settle()
        st = w.hass.states.get(var)
        if st is None:
            raise HarnessError("the kernel did not publish its ports")
        ports = json.loads(st.state)
        new = sorted(set(GlobalContextMgr.contexts) - before)
        self.ctx_name = new[0] if new else None
        for chan, port_key, sock_type in JUP_CHANNELS:
            conn = w.net.connect(ports[port_key], f"{chan}{self.no}")
            await conn.send(N.client_hello(sock_type, None if chan == "iopub" else b""))
            self.conns[chan] = conn
        await self.conns["iopub"].send(N.enc_message([b"\x01"]))
        await w.settle(0.2)
        for chan, conn in self.conns.items():
            evs = conn.decoder.events
            if conn.decoder.error or not evs or evs[0]["k"] != "greeting":
                raise HarnessError(f"no ZMTP greeting from the kernel on {chan}")

    async def request(self, chan: str, msg_type: str, content: dict) -> list:
        """Send one request and return the replies (parsed) that arrived on that channel until the loop settled."""
        w = self.w
        self.n_req += 1
        header = {"msg_id": f"c09-{self.no}-{self.n_req}", "session": f"c09-fe{self.no}", "username": "sim",
                  "date": "2024-05-14T17:00:00Z", "msg_type": msg_type, "version": "5.3"}
        conn = self.conns[chan]
        n0 = len(conn.decoder.messages())
        w.trace.append(["op", "jupyter", w.vts(), self.no, msg_type, content.get("code")])
        await conn.send(N.enc_message(N.build_wire(JUP_KEY.encode("utf-8"), [], header, {}, {}, content)))
        await w.settle(0.3)
        out = [N.parse_jupyter(ev["frames"], JUP_KEY.encode("utf-8")) for ev in conn.decoder.messages()[n0:]]
        return [m for m in out if m.get("ok")]

    async def execute(self, code: str) -> str:
        """Run a cell; returns the status of the execute_reply ('ok' / 'error' / 'none')."""
        replies = await self.request("shell", "execute_request",
                                     {"code": code, "silent": False, "store_history": True, "user_expressions": {},
                                      "allow_stdin": False})
        status = "none"
        for m in replies:
            if m.get("type") == "execute_reply":
                status = str(m["content"].get("status"))
        self.w.trace.append(["jupyter_reply", self.w.vts(), self.no, status])
        return status

    async def shutdown(self) -> None:
        await self.request("control", "shutdown_request", {"restart": False})
        await self.w.settle(0.2)


def run(scn: dict) -> dict:
    spec = scn["spec"]
    templates = spec["templates"]
    cfg = dict(scn["cfg"])
    cfg["initial_states"] = {"pyscript.p0": ["0", {"a0": 1}], "pyscript.p1": ["0", {"a1": 0}], "pyscript.p2": ["ok", {}],
                             "pyscript.p3": ["ok", {"a3": 1}]}
    if any(op["kind"].startswith("jup_") for op in scn["ops"]):
        cfg["c09_jup"] = True
    if spec.get("app"):
        cfg["apps"] = {APP: {}}
    if cfg.get("svc_delay_where", "all") == "start_only":
        cfg["svc_start_delay_ms"], cfg["svc_params_delay_ms"] = cfg.get("svc_params_delay_ms", 0), 0
    w = C09World(cfg, render(scn))
    sub = "legacy" if cfg["legacy"] else "new"
    violations: list = []
    state = {"removed_any": False}

    # Situations of two findings made with this workload (round 5); a violation that the reference model can attribute
    # to one of them is reported under the finding's own class, with the original class as "symptom":
    CAUSES = {
        # a definition evaluated after a user decorator raised (and was caught) in the same evaluation is not active
        "after_failed": "C09.not_activated_after_failed_decorator_call",
        # a function defined by a cell of a Jupyter session whose context was stopped by an unload is started and is
        # then left over at the next unload
        "stale_jupyter": "C09.started_in_stopped_session_context",
    }
    after_fail: set = set()     # (key, gen) of definitions made after a failed decorator call in the same evaluation
    stale_removed: set = set()  # (key, gen) of definitions of a surviving Jupyter session that were unloaded later

    def viol(cls, sig, detail, cause=None):
        sig = {"subsystem": sub, **sig}
        if cause == "after_failed":
            # that finding is repaired in /repo (d53f04c "a user decorator that raises does not keep later definitions
            # from being activated"): its symptoms are reported under their own class again
            cause = None
        if cause == "stale_jupyter" and sub != "new":
            cause = None  # (that finding is one of the default subsystem: the legacy one refuses such definitions)
        if cause:
            sig = {"subsystem": sub, "symptom": cls.split(".", 1)[1]}
            cls = CAUSES[cause]
            if cause == "after_failed" and not state.get("after_failed_seen"):
                state["after_failed_seen"] = True
                for v in state.pop("census_pending", []):
                    # census differences seen while such a definition was live, before the probe round that showed it
                    # not to be active
                    v["sig"] = {"subsystem": sub, "symptom": v["class"].split(".", 1)[1]}
                    v["class"] = CAUSES[cause]
        if any("Handler is already defined" in (lg["msg"] or "") for lg in w.logs):
            # from here on the run has diverged at the known webhook-redefinition defect
            sig = {"subsystem": sub, "why": "webhook_handler_already_defined_on_redefinition"}
        # (two findings made with this workload - C09-F8 `del` of a captured variable, C09-F9 stop of a function
        # that is still starting - used to re-label everything after the point of divergence; both are repaired in
        # /repo, so violations are reported under their own class again)
        violations.append({"class": cls, "sig": sig, "detail": detail, "t": w.vts()})
        return violations[-1]

    async def driver(w: World):
        from homeassistant.exceptions import ServiceNotFound

        await w.started()
        # ---- reference model
        live: dict = {}          # key -> {"gen", "tmpl", "where"}
        gens: dict = {}          # key -> last generation number
        file_gen = {name: 0 for name in FILES}
        file_tmpl = dict(spec["files"])
        file_present = {name: name in spec["files"] for name in FILES}
        app0 = spec.get("app") or None
        app_st = {"main_present": bool(app0), "main": app0["main"] if app0 else 0, "sub": app0["sub"] if app0 else 0,
                  "imports": bool(app0 and app0.get("imports", True)), "main_gen": 0, "sub_gen": 0}
        loaded = True
        entry_loaded = True
        p2 = "ok"
        a1 = 0
        census_by_key: dict = {}
        list_n = 0
        lost_n = 0
        expected_extra: list = []   # startup / shutdown markers expected in the current interval
        shared = {"owner": None}    # context that owns pyscript.svc_shared (reference model of the ownership rule)
        shared_calls: set = set()   # (key, gen) run by the probe call of the shared service in the current round
        victims: set = set()        # keys of definitions that failed in a user decorator: never active
        jup = {"sess": None, "n": 0}  # the Jupyter session in use (JupSession) and how many were started
        racing: set = set()         # (key, gen) of definitions whose context was stopped while they were in progress:
        #                             whether their startup/shutdown markers appear is don't-care; they must never run
        #                             for an occurrence afterwards
        mark_pos = len(w.marks)

        def kinds_of(key):
            return templates[live[key]["tmpl"]]

        def ctx_of(key):
            return key if key.startswith("file_") else "main"

        def cause_of_missing(exp, got):
            """Only expected markers/runs are missing, all of them of definitions made after a failed decorator call."""
            missing = [e for e in exp if e not in got]
            extra = [g for g in got if g not in exp]
            if missing and not extra and all((e[1], e[2]) in after_fail for e in missing):
                return "after_failed"
            return None

        def live_after_fail():
            return any((k, v["gen"]) in after_fail for k, v in live.items())

        def define(key, tmpl, where, gen_no, stale=False):
            if where == "file" and key[len("file_"):] in spec.get("redef", []):
                racing.add((key, OLD_GEN + gen_no))  # the superseded first definition: its markers are don't-care
                w.probe("function_defined_twice_in_one_file")
            if key in live:
                remove(key, "redefine")
            live[key] = {"gen": gen_no, "tmpl": tmpl, "where": where}
            if any(k in ("svc", "shr") for k in templates[tmpl][:-1]):
                w.probe("service_listed_before_other_trigger")
            if "sx" in templates[tmpl]:
                forms = _sx_forms(spec.get("sx"))
                w.probe("second_entity_named_in_state_expression")
                if (spec.get("sx") or {}).get("watch"):
                    w.probe("entity_listed_in_watch")
                elif forms == ["old_attr"]:
                    w.probe("entity_named_only_as_old_attribute")
                if not (spec.get("sx") or {}).get("watch") and set(forms) <= {"old", "old_attr"}:
                    w.probe("entity_named_only_through_old_forms")
            if stale:
                # defined by a cell of a Jupyter session that survived unload + set-up: don't-care in what it declares
                # (handled like a refused definition), but nothing of it may survive the next unload
                live[key]["refused"] = live[key]["stale"] = True
                racing.add((key, gen_no))
                return
            # refused when another context has a live declarer of the shared name; what else of a refused definition
            # is active is not stated (legacy: nothing is set up, new: the manager is rolled back)
            if "shr" in templates[tmpl] and shared["owner"] not in (None, ctx_of(key)):
                live[key]["refused"] = True
                racing.add((key, gen_no))  # its startup/shutdown markers are don't-care as well
                w.probe("shared_service_name_refused")
                return
            racing.discard((key, gen_no))
            if "shr" in templates[tmpl]:
                shared["owner"] = ctx_of(key)
            if "time" in templates[tmpl]:
                expected_extra.append(("run", key, gen_no, tmpl, "time", "startup"))

        def remove(key, why):
            ent = live.pop(key, None)
            if ent is None:
                return
            if "shr" in templates[ent["tmpl"]] and not ent.get("refused") and not any(
                    "shr" in templates[v["tmpl"]] and not v.get("refused") and ctx_of(k) == ctx_of(key)
                    for k, v in live.items()):
                shared["owner"] = None  # the last declaration of the owning context is gone: the name is free
            state["removed_any"] = True
            if "time" in templates[ent["tmpl"]] and not ent.get("refused"):
                expected_extra.append(("run", key, ent["gen"], ent["tmpl"], "time", "shutdown"))
            if "per" in templates[ent["tmpl"]]:
                w.probe("periodic_trigger_removed")
            if "sx" in templates[ent["tmpl"]]:
                w.probe("definition_naming_second_entity_removed")
            if ent.get("stale") and why in ("unload", "session_end"):
                # (redefinition / del inside the surviving session release the function object as usual)
                stale_removed.add((key, ent["gen"]))
                if why == "unload":
                    w.probe("jupyter_stale_definition_unloaded")

        def define_app():
            """The app has been (re)loaded as a whole, or is gone: the reference model of its two files."""
            if not app0:
                return
            if not app_st["main_present"]:
                for key in APP_KEYS:
                    remove(key, "app_removed")
                return
            define("app_main", app_st["main"], "app", app_st["main_gen"])
            if app_st["imports"]:
                define("app_sub", app_st["sub"], "app", app_st["sub_gen"])
            else:
                remove("app_sub", "not_imported")

        for name, tmpl in spec["files"].items():
            define(f"file_{name}", tmpl, "file", 0)
            if name in (spec.get("failfirst") or []):
                victims.add(f"Vfile_{name}")
                after_fail.add((f"file_{name}", 0))
                w.probe("file_definition_after_failed_decorator_call")
        define_app()
        if app0:
            w.probe("app_package_loaded")
        # the startup markers of the initial load happened before the driver started
        init_marks = [tuple(m["args"][:6]) for m in w.marks]
        want_init = sorted(expected_extra)
        got_init = sorted(t for t in init_marks if t[4] == "time" and t[5] in ("startup", "shutdown")
                          and (t[1], t[2]) not in racing)
        if got_init != want_init:
            viol("C09.startup_shutdown", {"when": "initial_load"}, f"initial load: startup markers {got_init}, expected {want_init}",
                 cause_of_missing(want_init, got_init))
        expected_extra.clear()
        mark_pos = len(w.marks)

        async def settle_gc():
            await w.settle(0.3)
            w.gc_now()
            await w.settle(0.3)

        async def probe_round(tag):
            nonlocal a1, mark_pos
            exp = list(expected_extra)
            expected_extra.clear()
            # event
            w.fire("probe_ev", {"tag": tag})
            await w.settle(0.05)
            # state: p0 0 -> 1 -> 0 ; p1.a1 any-change
            w.set_state("pyscript.p0", "1", {"a0": 1})
            await w.settle(0.05)
            w.set_state("pyscript.p0", "0", {"a0": 1})
            await w.settle(0.05)
            a1 += 1
            w.set_state("pyscript.p1", "0", {"a1": a1})
            await w.settle(0.05)
            w.mqtt_publish("t/probe", json.dumps({"tag": tag}))
            await w.settle(0.05)
            for key in sorted(live):
                if "hook" in kinds_of(key):
                    try:
                        await w.webhook_post(f"hook_{key}", {"tag": tag})
                    except BaseException as exc:  # pylint: disable=broad-except
                        viol("C09.webhook_raised", {}, f"posting to hook_{key} raised {exc!r}")
            await w.settle(0.05)
            for key in sorted(set(list(live) + [f"file_{n}" for n in FILES] + SLOTS + APP_KEYS
                                  + [f"K{s}" for s in SLOTS] + ([f"J{s}" for s in SLOTS] if cfg.get("c09_jup") else [])
                                  + sorted(victims))):
                svc = f"svc_{key}"
                should = key in live and "svc" in kinds_of(key) and entry_loaded
                has = w.hass.services.has_service("pyscript", svc)
                if key in live and live[key].get("refused"):
                    should = has  # a refused definition: don't-care
                if has != should:
                    cause = None
                    if should and (key, live[key]["gen"]) in after_fail:
                        cause = "after_failed"
                    elif not should and any(k == key for k, _ in stale_removed):
                        cause = "stale_jupyter"
                    viol("C09.service_registration", {"should_exist": should},
                         f"after {tag}: service pyscript.{svc} exists={has}, reference says {should} (live {sorted(live)})",
                         cause)
                if has:
                    try:
                        await w.call_service("pyscript", svc, {"tag": tag}, blocking=True)
                    except ServiceNotFound:
                        pass
            # the shared service name: registered by nobody once no live definition declares it
            declarers = [k for k, v in live.items() if "shr" in templates[v["tmpl"]]]
            has_shared = w.hass.services.has_service("pyscript", "svc_shared")
            if has_shared and (not declarers or not entry_loaded):
                viol("C09.service_registration", {"should_exist": False, "shared": True},
                     f"after {tag}: service pyscript.svc_shared is registered although no live function declares it "
                     f"(live {sorted(live)})")
            if entry_loaded and not has_shared and any(not live[k].get("refused") for k in declarers):
                viol("C09.service_registration", {"should_exist": True, "shared": True},
                     f"after {tag}: service pyscript.svc_shared is not registered although a live function of the owning "
                     f"context declares it (live {live})",
                     "after_failed" if all((k, live[k]["gen"]) in after_fail for k in declarers
                                           if not live[k].get("refused")) else None)
            shared_calls.clear()
            if has_shared:
                n0 = len(w.marks)
                try:
                    await w.call_service("pyscript", "svc_shared", {"tag": tag}, blocking=True)
                except ServiceNotFound:
                    pass
                await w.settle(0.05)
                for m in w.marks[n0:]:
                    if m["args"][4] == "service":
                        shared_calls.add(id(m))
                        if m["args"][1] not in live or live[m["args"][1]]["gen"] != m["args"][2]:
                            # the registered handler is the one of the latest declaration; when that function goes
                            # away while an older declarer of the same context is still live, the handler stays
                            same_ctx = any(ctx_of(k) == ctx_of(m["args"][1]) and not live[k].get("refused")
                                           for k in declarers)
                            viol("C09.dead_function_ran",
                                 {"trigger": "service", "shared": True,
                                  "why": "older_declarer_in_same_context_keeps_name" if same_ctx else "unexplained"},
                                 f"after {tag}: pyscript.svc_shared ran {m['args'][1]} gen {m['args'][2]} which is not "
                                 f"live (live {live})",
                                 # (the function that ran has been redefined *with* the name, so the new definition
                                 # would have replaced the handler if it were active: not finding C09-K2)
                                 "after_failed" if m["args"][1] in declarers and not live[m["args"][1]].get("refused")
                                 and (m["args"][1], live[m["args"][1]]["gen"]) in after_fail else None)
            await w.settle(0.2)
            if entry_loaded:
                for key in sorted(live):
                    ent = live[key]
                    if ent.get("refused"):
                        continue
                    kinds = kinds_of(key)
                    base = ("run", key, ent["gen"], ent["tmpl"])
                    if "ev" in kinds:
                        exp.append(base + ("event", None))
                    if "st" in kinds:
                        exp.append(base + ("state", None, "pyscript.p0"))
                        exp.append(base + ("state", None, "pyscript.p1"))
                        w.probe("several_names_one_entity")
                    if "st2" in kinds:
                        if p2 != "zz":
                            exp.append(base + ("state", None, "pyscript.p0"))
                        w.probe("stale_condition_probe")
                    if "sx" in kinds:
                        exp.append(base + ("state", None, "pyscript.p0"))
                    if "mqtt" in kinds:
                        exp.append(base + ("mqtt", None))
                    if "hook" in kinds:
                        exp.append(base + ("webhook", None))
                    if "svc" in kinds:
                        exp.append(base + ("service", None))
            got = []
            periodic_keys = {key for key in live if "per" in kinds_of(key)}
            for m in w.marks[mark_pos:]:
                args = m["args"]
                tup = tuple(args[:6])
                if (args[1], args[2]) in racing and args[4] == "time" and args[5] in ("startup", "shutdown"):
                    continue
                if args[1] in live and live[args[1]].get("refused") and live[args[1]]["gen"] == args[2]:
                    continue  # a refused definition: don't-care
                if id(m) in shared_calls:
                    continue
                if args[4] == "state":
                    tup = tup + (args[6],)
                if args[4] == "time" and args[5] not in ("startup", "shutdown"):
                    # a periodic run: allowed for live periodic definitions of that generation only
                    key, gen_no = args[1], args[2]
                    if key in periodic_keys and live[key]["gen"] == gen_no:
                        continue
                    if m["vt"] < state.get("last_op_settled", 0):
                        continue  # fired before the removal had settled
                    viol("C09.dead_function_ran", {"trigger": "periodic"},
                         f"after {tag}: periodic run of {key} gen {gen_no} which is not live (live {live})",
                         "stale_jupyter" if (key, gen_no) in stale_removed else None)
                    continue
                got.append(tup)
            mark_pos = len(w.marks)
            if sorted(got, key=repr) != sorted(exp, key=repr):
                missing = [e for e in exp if e not in got]
                extra = [g for g in got if g not in exp]
                dup = [g for g in set(got) if got.count(g) > exp.count(g) and g in exp]
                if extra:
                    dead = [g for g in extra if g[1] not in live or live[g[1]]["gen"] != g[2]]
                    cls = "C09.dead_function_ran" if dead else "C09.unexpected_run"
                    viol(cls, {"trigger": str((dead or extra)[0][4])},
                         f"after {tag}: runs {extra} are not expected (live {live}, p2={p2})",
                         "stale_jupyter" if dead and all((g[1], g[2]) in stale_removed for g in extra) else None)
                for part, cause in (([e for e in missing if (e[1], e[2]) in after_fail], "after_failed"),
                                    ([e for e in missing if (e[1], e[2]) not in after_fail], None)):
                    if part:
                        kinds_missing = sorted({str(e[4]) for e in part})
                        viol("C09.live_function_did_not_run", {"trigger": "+".join(kinds_missing)},
                             f"after {tag}: expected runs {part} did not happen (live {live}, p2={p2}); got {got}", cause)
                if dup and not extra:
                    viol("C09.ran_twice", {"trigger": str(dup[0][4])}, f"after {tag}: {dup} ran more than once")

        def census_check(tag):
            sess = jup["sess"]
            key = [sorted((k, v["tmpl"], bool(v.get("refused"))) for k, v in live.items()), entry_loaded]
            if sess is not None:
                key.append("session_survived_unload" if sess.stale else "session_open")
            key = json.dumps(key)
            cen = _census(w, sess is not None)
            if key in census_by_key:
                w.probe("same_live_set_seen_twice")
                diff = _diff(census_by_key[key][1], cen)
                if diff:
                    cause = None
                    if stale_removed:
                        cause = "stale_jupyter"
                    elif (live_after_fail() or census_by_key[key][2]) and state.get("after_failed_seen"):
                        # (only in a run in which a definition made after a failed decorator call is seen not to be
                        # active - possibly by the probe round that follows: census_pending)
                        cause = "after_failed"
                    rec = viol("C09.census_depends_on_history", {"tables": "+".join(sorted(diff))},
                               f"after {tag}: live set {key} had census {census_by_key[key][0]!r}-time values, now differs: {diff}",
                               cause)
                    if cause is None and (live_after_fail() or census_by_key[key][2]):
                        state.setdefault("census_pending", []).append(rec)
            elif not state.get("cell_del_applied"):
                # (never a reference while the run may have diverged at C09.cell_del)
                census_by_key[key] = (tag, cen, live_after_fail())
            return cen

        def unloaded():
            """The integration has been unloaded: nothing is live; an open Jupyter session survives as a kernel."""
            if jup["sess"] is not None:
                if any(v["where"] == "jupyter" and not v.get("stale") for v in live.values()):
                    w.probe("jupyter_functions_unloaded")
                jup["sess"].stale = True
            for k in list(live):
                remove(k, "unload")

        async def jup_end():
            sess = jup["sess"]
            if sess is None:
                return
            await sess.shutdown()
            for k in [k for k, v in live.items() if v["where"] == "jupyter"]:
                remove(k, "session_end")
            jup["sess"] = None

        # (like after every op: cycle collection is not part of the property - e.g. the validation of a watch= argument
        # leaves the superseded first definition of a file in a reference cycle)
        await settle_gc()
        census_check("start")
        await probe_round("start")
        for i, op in enumerate(scn["ops"]):
            kind = op["kind"]
            tag = f"op{i}:{kind}"
            if state.pop("cell_del_ending", False):
                # the previous op released the cell / ended the script's context and has been judged: the divergence at
                # finding C09.cell_del (if any) is over
                state["cell_del_applied"] = False
            if kind == "stall":
                w.loop.stall(op["s"])
                w.fault("stall")
                continue
            if kind == "set_p2":
                p2 = op["s"]
                w.set_state("pyscript.p2", p2, {})
                await w.settle(0.1)
                await probe_round(tag) if entry_loaded else None
                continue
            if not entry_loaded and kind not in ("setup",):
                continue
            if kind in ("make", "append"):
                if kind == "make":
                    key = op["slot"]
                    if key in live:
                        w.probe("redefined_in_slot")
                        if "hook" in kinds_of(key) and "hook" in templates[op["tmpl"]]:
                            w.probe("webhook_redefined")
                else:
                    list_n += 1
                    key = f"L{list_n}"
                gens[key] = gens.get(key, 0) + 1
                data = {"cmd": kind, "slot": key, "gen": gens[key], "tmpl": op["tmpl"]}
                if op.get("after_failed"):
                    # the same service call first makes a definition that fails in a user decorator (caught)
                    data["pre"] = "fail"
                    victims.add("V" + key)
                    after_fail.add((key, gens[key]))
                    w.probe("definition_after_failed_decorator_call")
                await w.call_service("pyscript", "lifecycle", data)
                define(key, op["tmpl"], "closure", gens[key])
            elif kind == "cell_make":
                key = f"K{op['slot']}"
                if key in live:
                    w.probe("redefined_in_slot")
                gens[key] = gens.get(key, 0) + 1
                w.probe("closure_referenced_by_cell_only")
                await w.call_service("pyscript", "lifecycle", {"cmd": "cell_make", "slot": key, "gen": gens[key],
                                                               "tmpl": op["tmpl"]})
                define(key, op["tmpl"], "closure", gens[key])
            elif kind == "cell_drop":
                key = f"K{op['slot']}"
                if key not in live:
                    continue  # nothing bound in that cell (the script would raise NameError on a second del)
                how = op.get("how", "rebind")
                w.probe("cell_variable_deleted" if how == "del" else "cell_variable_overwritten")
                await w.call_service("pyscript", "lifecycle", {"cmd": "cell_drop", "slot": key, "how": how})
                remove(key, "cell_drop")
                if how == "del":
                    state["cell_del_applied"] = True
            elif kind == "make_lost":
                lost_n += 1
                key = f"X{lost_n}"
                racing.add((key, 1))
                w.probe("definition_dropped_at_once")
                await w.call_service("pyscript", "lifecycle", {"cmd": "lost", "slot": key, "gen": 1, "tmpl": op["tmpl"]})
            elif kind == "drop":
                if op["slot"] in live:
                    w.probe("closure_dropped_from_container")
                await w.call_service("pyscript", "lifecycle", {"cmd": "drop", "slot": op["slot"]})
                remove(op["slot"], "drop")
            elif kind == "clear":
                if any(v["where"] == "closure" for v in live.values()):
                    w.probe("container_cleared")
                await w.call_service("pyscript", "lifecycle", {"cmd": "clear"})
                for key in [k for k, v in live.items() if v["where"] == "closure"]:
                    remove(key, "clear")
                state["cell_del_ending"] = True  # the cells themselves are released
            elif kind == "file_edit":
                name = op["name"]
                content = op.get("content", "code")
                by_name = op.get("reload") == "name"
                file_gen[name] += 1
                file_tmpl[name] = op["tmpl"] if content == "code" else None
                file_present[name] = True
                w.write_file(f"pyscript/g_{name}.py", _file_text(name, content, op["tmpl"], templates[op["tmpl"]],
                                                                 file_gen[name], name in spec.get("redef", []), spec))
                # an argument-less reload, or one that names the global context of the file that has just changed
                await w.reload(f"file.g_{name}" if by_name else None)
                w.probe("file_reloaded")
                if by_name:
                    w.probe("file_reloaded_by_name")
                if content == "code":
                    define(f"file_{name}", op["tmpl"], "file", file_gen[name])
                    if name in (spec.get("failfirst") or []):
                        victims.add(f"Vfile_{name}")
                        after_fail.add((f"file_{name}", file_gen[name]))
                        w.probe("file_definition_after_failed_decorator_call")
                else:
                    # the file is still there but declares nothing any more
                    if f"file_{name}" in live:
                        w.probe("file_emptied" if content == "empty" else "file_comment_only")
                        if content == "empty" and by_name:
                            w.probe("file_emptied_and_reloaded_by_name")
                    remove(f"file_{name}", "file_emptied")
            elif kind == "file_edit_racing":
                # two edits of one file reloaded a few ms apart: the functions of the first edit are still being
                # started (or have just been) when the second reload stops their context
                name = op["name"]
                key = f"file_{name}"
                file_gen[name] += 1
                racing.add((key, file_gen[name]))
                if name in spec.get("redef", []):
                    racing.add((key, OLD_GEN + file_gen[name]))
                w.write_file(f"pyscript/g_{name}.py", _file_src(name, op["tmpl"], templates[op["tmpl"]], file_gen[name],
                                                                name in spec.get("redef", []), spec))
                await w.reload()
                if op["after_ms"]:
                    await w.sleep(op["after_ms"] / 1000.0)
                w.probe("file_reloaded_again_while_starting")
                file_gen[name] += 1
                file_tmpl[name] = op["tmpl2"]
                file_present[name] = True
                w.write_file(f"pyscript/g_{name}.py", _file_src(name, op["tmpl2"], templates[op["tmpl2"]], file_gen[name],
                                                                name in spec.get("redef", []), spec))
                await w.reload()
                define(key, op["tmpl2"], "file", file_gen[name])
                if name in (spec.get("failfirst") or []):
                    victims.add(f"Vfile_{name}")
                    after_fail.add((key, file_gen[name]))
            elif kind == "app_edit":
                part = op["part"]
                if part == "sub":
                    app_st["sub_gen"] += 1
                    app_st["sub"] = op["tmpl"]
                    w.write_file(APP_SUB, _app_src("sub", op["tmpl"], templates[op["tmpl"]], app_st["sub_gen"],
                                                   sx=spec.get("sx")))
                    # the sibling is loaded through the main file's import only: while it is not imported it is
                    # not part of the loaded app and a change of it reloads nothing
                    reloaded = app_st["main_present"] and app_st["imports"]
                    if reloaded:
                        w.probe("app_file_edited")
                else:
                    if not app_st["main_present"]:
                        w.probe("app_restored")
                    else:
                        w.probe("app_file_edited")
                    if app_st["main_present"] and app_st["imports"] and not op.get("imports", True):
                        w.probe("app_sibling_no_longer_imported")
                    app_st["main_gen"] += 1
                    app_st["main"] = op["tmpl"]
                    app_st["imports"] = bool(op.get("imports", True))
                    app_st["main_present"] = True
                    w.delete_file(APP_MAIN_COMMENTED)
                    w.write_file(APP_MAIN, _app_src("main", op["tmpl"], templates[op["tmpl"]], app_st["main_gen"],
                                                    app_st["imports"], spec.get("sx")))
                    reloaded = True
                await w.reload()
                if reloaded:
                    define_app()
            elif kind == "app_remove_main":
                if app_st["main_present"]:
                    w.probe("app_main_commented_sibling_on_disk" if op["how"] == "comment"
                            else "app_main_deleted_sibling_on_disk")
                    if op["how"] == "comment":
                        w.rename(APP_MAIN, APP_MAIN_COMMENTED)
                    else:
                        w.delete_file(APP_MAIN)
                app_st["main_present"] = False
                await w.reload()
                define_app()
            elif kind == "jup_make":
                sess = jup["sess"]
                if sess is not None and sess.stale and op.get("fresh"):
                    await jup_end()  # the front end gives up the session that survived the unload ...
                    sess = None
                if sess is None:
                    jup["n"] += 1
                    sess = jup["sess"] = JupSession(w, jup["n"])  # ... and starts a new one
                    await sess.start()
                    w.probe("jupyter_session_started")
                key = f"J{op['slot']}"
                if key in live:
                    w.probe("jupyter_function_redefined")
                gens[key] = gens.get(key, 0) + 1
                if op.get("after_failed"):
                    victims.add("V" + key)
                    sess.failed_once = True
                    w.probe("jupyter_cell_after_failed_decorator_call")
                if sess.failed_once:
                    after_fail.add((key, gens[key]))  # the session evaluates all its cells with one evaluator
                if sess.stale:
                    w.probe("jupyter_cell_after_unload_and_setup")
                w.probe("jupyter_cell_defined_function")
                await sess.execute(_cell_src(key, f"fn_{op['slot']}", op["tmpl"], templates[op["tmpl"]], gens[key], spec,
                                             bool(op.get("after_failed"))))
                define(key, op["tmpl"], "jupyter", gens[key], stale=sess.stale)
            elif kind == "jup_del":
                key = f"J{op['slot']}"
                if key not in live or jup["sess"] is None:
                    continue  # (the name is not bound in the session: the cell would only raise NameError)
                w.probe("jupyter_function_deleted")
                await jup["sess"].execute(f"del fn_{op['slot']}\n")
                remove(key, "jupyter_del")
            elif kind == "jup_end":
                if jup["sess"] is None:
                    continue
                w.probe("jupyter_session_shut_down")
                await jup_end()
            elif kind == "file_delete":
                name = op["name"]
                # (a reload that names a context that neither exists nor has a file is an error: argument-less then)
                by_name = op.get("reload") == "name" and file_present[name]
                if file_present[name]:
                    w.probe("file_deleted")
                    if by_name:
                        w.probe("file_deleted_and_reloaded_by_name")
                file_present[name] = False
                w.delete_file(f"pyscript/g_{name}.py")
                await w.reload(f"file.g_{name}" if by_name else None)
                remove(f"file_{name}", "file_delete")
            elif kind == "reload":
                await w.reload()
            elif kind == "make_racing":
                key = op["slot"]
                gens[key] = gens.get(key, 0) + 1
                racing.add((key, gens[key]))
                await w.call_service("pyscript", "lifecycle", {"cmd": "make", "slot": key, "gen": gens[key],
                                                               "tmpl": op["tmpl"]}, blocking=False)
                if op["after_ms"]:
                    await w.sleep(op["after_ms"] / 1000.0)
                w.probe("stop_while_definition_in_progress")
                if op["then"] == "unload":
                    await w.unload_entry()
                    unloaded()
                    entry_loaded = False
                    state["cell_del_ending"] = True
                    kind = "unload"
                else:
                    state["main_rev"] = state.get("main_rev", 0) + 1
                    w.write_file("pyscript/c09.py", render(scn)["pyscript/c09.py"] + f"# rev {state['main_rev']}\n")
                    await w.reload()
                    for k in [k for k, v in live.items() if v["where"] == "closure"]:
                        remove(k, "main_reload")
                    state["cell_del_ending"] = True  # the script's old context is gone
            elif kind == "unload":
                await w.unload_entry()
                unloaded()
                entry_loaded = False
                state["cell_del_ending"] = True
            elif kind == "setup":
                if entry_loaded:
                    continue
                await w.setup_entry()
                entry_loaded = True
                w.probe("setup_again")
                for name in FILES:
                    if file_present[name] and file_tmpl.get(name) is not None:
                        define(f"file_{name}", file_tmpl[name], "file", file_gen[name])
                define_app()
            await settle_gc()
            state["last_op_settled"] = w.loop.vt
            cen = census_check(tag)
            if kind == "unload":
                w.probe("unloaded_and_compared")
                pre = {k: w.census_pre_setup.get(k) for k in CENSUS_KEYS}
                pre["state_notify"] = {}
                now_c = dict(cen)
                now_c.pop("all_tasks", None)
                pre_services = {d: [s for s in v if not (d == "pyscript" and s in BUILTIN_SERVICES)]
                                for d, v in (pre.get("services") or {}).items()}
                now_services = {d: [s for s in v if not (d == "pyscript" and s in BUILTIN_SERVICES)]
                                for d, v in (now_c.get("services") or {}).items()}
                pre["services"] = {d: v for d, v in pre_services.items() if v}
                now_c["services"] = {d: v for d, v in now_services.items() if v}
                # Home Assistant's own once-listeners for 'started' are consumed and its registries add listeners
                # during set-up: not attributable to pyscript
                for tab in (pre, now_c):
                    tab["listeners"] = {k: v for k, v in tab["listeners"].items()
                                        if k not in ("entity_registry_updated", "homeassistant_started")}
                diff = _diff(pre, now_c)
                if diff:
                    viol("C09.leftover_after_unload", {"tables": "+".join(sorted(diff))},
                         f"after unload Home Assistant is not back to its pre-setup census: {diff}",
                         "stale_jupyter" if stale_removed else None)
                # markers of the unload itself
                exp = sorted(expected_extra, key=repr)
                expected_extra.clear()
                got = sorted((tuple(m["args"][:6]) for m in w.marks[mark_pos:]
                              if not (m["args"][4] == "time" and m["args"][5] not in ("startup", "shutdown"))
                              and not ((m["args"][1], m["args"][2]) in racing and m["args"][4] == "time")), key=repr)
                mark_pos = len(w.marks)
                if got != exp:
                    viol("C09.startup_shutdown", {"when": "unload"}, f"unload: markers {got}, expected {exp}",
                         cause_of_missing(exp, got))
                continue
            await probe_round(tag)
        state["live_end"] = copy.deepcopy(live)
        state["entry_loaded"] = entry_loaded
        state["mark_pos"] = len(w.marks)
        state["racing"] = set(racing)
        state["after_fail"] = set(after_fail)

    w.run(driver)
    # ---- HA stop: shutdown markers exactly once for every live definition with a shutdown trigger
    if state.get("entry_loaded"):
        exp = sorted((("run", key, ent["gen"], ent["tmpl"], "time", "shutdown") for key, ent in state["live_end"].items()
                      if "time" in templates[ent["tmpl"]] and not ent.get("refused")), key=repr)
        got = sorted((tuple(m["args"][:6]) for m in w.marks[state["mark_pos"]:]
                      if m["args"][4] == "time" and m["args"][5] in ("startup", "shutdown")
                      and (m["args"][1], m["args"][2]) not in state.get("racing", ())), key=repr)
        if got != exp:
            missing = [e for e in exp if e not in got]
            viol("C09.startup_shutdown", {"when": "ha_stop"}, f"at Home Assistant stop: markers {got}, expected {exp}",
                 "after_failed" if missing and not [g for g in got if g not in exp]
                 and all((e[1], e[2]) in state.get("after_fail", ()) for e in missing) else None)
    if w.ha_exceptions:
        viol("C09.escaped_to_ha", {}, f"Home Assistant logged/handled: {w.ha_exceptions[:2]}")
    violations.sort(key=lambda v: v.get("t", 0.0))
    return base_result(w, violations, state["removed_any"], {"ops": len(scn["ops"])})
