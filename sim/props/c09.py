"""C09 - triggers live exactly as long as their function and leave nothing behind.

Workload: a script file with factory functions that build decorated closures (state / event / MQTT / webhook /
time startup+shutdown / periodic / @service triggers, state expressions that name several aspects of one
entity - value, .old, attribute - and several entities) kept in a dict and a list; file-level decorated
functions in separate files.  Ops: make / re-make (redefine in the same slot) / append / drop / clear /
edit+reload / delete+reload / create+reload / unload entry / set up entry again / external change of a
condition variable, each followed by settle + gc + a round of probe occurrences for every trigger kind.

Oracle: a reference model of which definitions are live.  After every settled op only live definitions run
and each runs exactly once per probe occurrence per trigger; startup/shutdown markers exactly once per
definition/removal; the census of subscriptions, listeners, services, webhooks, MQTT subscriptions, tasks and
timers is a function of the live set only (history independent) and equals the pre-setup census after unload.
"""

from __future__ import annotations

import copy
import json
import random

from ..common import base_result, gen_cfg
from ..world import World

PROPERTY = "C09"
LEVEL = "exploration"
RULE = (
    "seeded generation of 2-4 decorator templates (subsets of 8 trigger kinds) and <=20 lifecycle ops over closures in "
    "containers and file-level functions, each followed by a probe round; distinct = scenario digest; non-trivial = "
    "at least one definition was deactivated and then probed"
)
ASSUMPTIONS = [
    "after every op the harness lets the loop settle, runs gc.collect() and settles again before probing (cycle "
    "collection is not part of the property)",
    "the census compares tables by size per key (queues/listeners per entity, event type, topic, webhook id), "
    "service names, live tasks and pending timers; State.notify_var_last is not part of it",
    "after unload the three built-in pyscript services (reload, jupyter_kernel_start, generate_stubs) are don't-care",
    "one webhook id is used by one slot only; several definitions may exist for it only transiently (redefinition)",
    "a definition whose shared service name is owned by another context ('refused') is don't-care in everything "
    "else it declares until it is redefined; at most one file declares the shared name at a time (two files "
    "declaring it and starting together race for it, the property does not decide the winner)",
    "startup/shutdown markers of a definition whose context was stopped while it was being defined are don't-care; "
    "it must never run for an occurrence afterwards",
]
TIERS = {
    "quick": {"runs": 500, "chunk": 17},
    "thorough": {"runs": 20000, "chunk": 120},
}
REACH_PROBES = ["redefined_in_slot", "closure_dropped_from_container", "container_cleared", "file_reloaded", "file_deleted",
                "unloaded_and_compared", "setup_again", "several_names_one_entity", "same_live_set_seen_twice",
                "stale_condition_probe", "periodic_trigger_removed", "webhook_redefined",
                "stop_while_definition_in_progress", "shared_service_name_refused", "function_defined_twice_in_one_file",
                "definition_dropped_at_once"]
SHRINK_LISTS = [["ops"], ["spec", "templates"]]

KINDS = ["ev", "st", "st2", "time", "per", "mqtt", "hook", "svc", "shr"]
SLOTS = ["a", "b", "c"]
FILES = ["ga", "gb"]


# ------------------------------------------------------------------ generation
def gen(rng: random.Random, tier: str) -> dict:
    cfg = gen_cfg(rng)
    cfg["drift"] = 0.0
    cfg["svc_params_delay_ms"] = rng.choice([0, 0, 2.0, 8.0])  # injected suspension inside ServiceDecorator.start()
    templates = []
    for _ in range(rng.randint(2, 4)):
        kinds = sorted(rng.sample(KINDS, rng.choice([1, 2, 2, 3, 4])), key=KINDS.index)
        templates.append(kinds)
    files = {}
    for name in FILES:
        if rng.random() < 0.6:
            files[name] = rng.randrange(len(templates))
    redef = [name for name in FILES if rng.random() < 0.25]
    ops = []
    n_list = 0
    for _ in range(rng.randint(4, 20 if tier == "thorough" else 14)):
        roll = rng.random()
        tmpl = rng.randrange(len(templates))
        if roll < 0.3:
            ops.append({"kind": "make", "slot": rng.choice(SLOTS), "tmpl": tmpl})
        elif roll < 0.36:
            n_list += 1
            ops.append({"kind": "append", "tmpl": tmpl})
        elif roll < 0.39:
            # a decorated closure is created and its only reference dropped at once, in the same call
            ops.append({"kind": "make_lost", "tmpl": tmpl})
        elif roll < 0.52:
            ops.append({"kind": "drop", "slot": rng.choice(SLOTS)})
        elif roll < 0.57:
            ops.append({"kind": "clear"})
        elif roll < 0.67:
            ops.append({"kind": "file_edit", "name": rng.choice(FILES), "tmpl": tmpl})
        elif roll < 0.72:
            ops.append({"kind": "file_delete", "name": rng.choice(FILES)})
        elif roll < 0.78:
            ops.append({"kind": "reload"})
        elif roll < 0.86:
            ops.append({"kind": "unload"})
            ops.append({"kind": "set_p2", "s": rng.choice(["zz", "ok", "zz"])})
            ops.append({"kind": "setup"})
        elif roll < 0.92:
            ops.append({"kind": "set_p2", "s": rng.choice(["zz", "ok", "q"])})
        elif roll < 0.97:
            # a run-time definition that is still in progress (service call issued, not awaited) when its context is
            # stopped: by unloading the integration or by reloading the edited script that holds the containers
            then = rng.choice(["unload", "main_reload"])
            ops.append({"kind": "make_racing", "slot": rng.choice(SLOTS), "tmpl": tmpl, "then": then,
                        "after_ms": rng.choice([0, 0.1, 0.4, 1, 3, 10, 25])})
            if then == "unload":
                ops.append({"kind": "setup"})
        else:
            ops.append({"kind": "stall", "s": rng.choice([0.05, 0.5])})
    return normalize({"cfg": cfg, "spec": {"templates": templates, "files": files, "redef": redef}, "ops": ops})


# ------------------------------------------------------------------ rendering
def _decorators(kinds: list, slot_expr: str) -> list[str]:
    out = []
    for kind in kinds:
        if kind == "ev":
            out.append("@event_trigger('probe_ev')")
        elif kind == "st":
            out.append("@state_trigger(\"pyscript.p0 == '1' and pyscript.p0.old == '0' and pyscript.p0.a0 != 5\", 'pyscript.p1.a1')")
        elif kind == "st2":
            out.append("@state_trigger(\"pyscript.p0 == '1' and pyscript.p2 != 'zz'\")")
        elif kind == "time":
            out.append("@time_trigger('startup', 'shutdown')")
        elif kind == "per":
            out.append("@time_trigger('period(now + 0.5s, 1s)')")
        elif kind == "mqtt":
            out.append("@mqtt_trigger('t/probe')")
        elif kind == "hook":
            out.append(f"@webhook_trigger('hook_' + {slot_expr})")
        elif kind == "svc":
            out.append(f"@service('pyscript.svc_' + {slot_expr})")
        elif kind == "shr":
            # one service name wanted by every definition that has this kind: the first context to declare it owns it
            out.append("@service('pyscript.svc_shared')")
    return out


OLD_GEN = 1000  # generation numbers >= OLD_GEN: the first of two same-named definitions in one file


def _file_src(name: str, tmpl_idx: int, kinds: list, gen_no: int, redef: bool = False) -> str:
    lines = [f"# generation {gen_no}", f"SLOT = 'file_{name}'"]
    if redef:
        # the same function is defined twice in the file: only the second definition is referenced once the file
        # has loaded, so only it may be active
        lines += _decorators(kinds, "SLOT")
        lines += [f"def top_{name}(**kw):",
                  f"    sim.mark('run', 'file_{name}', {OLD_GEN + gen_no}, {tmpl_idx}, kw.get('trigger_type'), kw.get('trigger_time'), kw.get('var_name'))",
                  ""]
    lines += _decorators(kinds, "SLOT")
    lines += [f"def top_{name}(**kw):",
              f"    sim.mark('run', 'file_{name}', {gen_no}, {tmpl_idx}, kw.get('trigger_type'), kw.get('trigger_time'), kw.get('var_name'))",
              ""]
    return "\n".join(lines) + "\n"


def render(scn: dict) -> dict:
    spec = scn["spec"]
    lines = ["holder = {}", "lst = []", ""]
    for idx, kinds in enumerate(spec["templates"]):
        lines.append(f"def fact{idx}(slot, gen):")
        for dec in _decorators(kinds, "slot"):
            lines.append("    " + dec)
        lines.append("    def fn(**kw):")
        lines.append(f"        sim.mark('run', slot, gen, {idx}, kw.get('trigger_type'), kw.get('trigger_time'), kw.get('var_name'))")
        lines.append("    return fn")
        lines.append("")
    lines += ["@service", "def lifecycle(cmd=None, slot=None, gen=None, tmpl=None):",
              "    fn = None"]
    for idx in range(len(spec["templates"])):
        lines.append(f"    if tmpl == {idx} and cmd in ('make', 'append', 'lost'):")
        lines.append(f"        fn = fact{idx}(slot, gen)")
    lines += ["    if cmd == 'make':",
              "        holder[slot] = fn",
              "    elif cmd == 'append':",
              "        lst.append(fn)",
              "    elif cmd == 'drop':",
              "        holder.pop(slot, None)",
              "    elif cmd == 'clear':",
              "        holder.clear()",
              "        lst.clear()",
              "    fn = None",
              ""]
    files = {"pyscript/c09.py": "\n".join(lines) + "\n"}
    for name, tmpl in spec["files"].items():
        if tmpl < len(spec["templates"]):
            files[f"pyscript/g_{name}.py"] = _file_src(name, tmpl, spec["templates"][tmpl], 0,
                                                       name in spec.get("redef", []))
    return files


def normalize(scn: dict) -> dict | None:
    n = len(scn["spec"]["templates"])
    if n == 0:
        return None
    for op in scn["ops"]:
        if "tmpl" in op and op["tmpl"] >= n:
            op["tmpl"] = op["tmpl"] % n
    scn["spec"]["files"] = {k: v % n for k, v in scn["spec"]["files"].items()}
    # at most one *file* declares the shared service name at any time: when two files that both declare it start
    # together (set-up, start of Home Assistant) which of them gets the name is a race the property does not decide
    tmpls = scn["spec"]["templates"]
    files = scn["spec"]["files"]
    plain = [i for i, kinds in enumerate(tmpls) if "shr" not in kinds]
    holders = [name for name in sorted(files) if "shr" in tmpls[files[name]]]
    for name in holders[1:]:
        if plain:
            files[name] = plain[0]
        else:
            del files[name]
    cur = dict(files)
    ops = []
    for op in scn["ops"]:
        if op["kind"] == "file_edit":
            other = [n for n in cur if n != op["name"] and "shr" in tmpls[cur[n]]]
            if "shr" in tmpls[op["tmpl"]] and other:
                if not plain:
                    continue
                op["tmpl"] = plain[0]
            cur[op["name"]] = op["tmpl"]
        elif op["kind"] == "file_delete":
            cur.pop(op["name"], None)
        ops.append(op)
    scn["ops"] = ops
    return scn


def simplify(scn: dict):
    for ti, kinds in enumerate(scn["spec"]["templates"]):
        if len(kinds) > 1:
            for ki in range(len(kinds)):
                cand = copy.deepcopy(scn)
                del cand["spec"]["templates"][ti][ki]
                yield cand
    for name in list(scn["spec"]["files"]):
        cand = copy.deepcopy(scn)
        del cand["spec"]["files"][name]
        yield cand
    for name in list(scn["spec"].get("redef", [])):
        cand = copy.deepcopy(scn)
        cand["spec"]["redef"].remove(name)
        yield cand
    for key, val in (("timer_late_ms", 0.0), ("cost_us", 50), ("exec_latency_ms", [0.0, 0.0]), ("set_order_salt", 0),
                     ("svc_params_delay_ms", 0)):
        if scn["cfg"].get(key) != val:
            cand = copy.deepcopy(scn)
            cand["cfg"][key] = val
            yield cand


def warmup() -> None:
    scn = gen(random.Random(2), "quick")
    scn["ops"] = scn["ops"][:2]
    run(scn)


# ------------------------------------------------------------------ run
CENSUS_KEYS = ("listeners", "services", "webhooks", "mqtt_subs", "event_notify", "mqtt_notify",
               "webhook_notify", "our_tasks", "task2cb", "task2context", "unique_name2task", "service_cnt")
BUILTIN_SERVICES = {"reload", "jupyter_kernel_start", "generate_stubs"}


def _census(w: World) -> dict:
    import asyncio

    cen = w.census()
    out = {k: cen[k] for k in CENSUS_KEYS}
    out["state_notify"] = {k: v for k, v in cen["state_notify"].items() if v}
    out["all_tasks"] = sum(1 for t in asyncio.all_tasks(w.loop) if not t.done())
    return out


def _diff(a: dict, b: dict) -> dict:
    out = {}
    for key in a:
        if a[key] != b.get(key):
            va, vb = a[key], b.get(key)
            if isinstance(va, dict) and isinstance(vb, dict):
                out[key] = [{k: v for k, v in va.items() if vb.get(k) != v}, {k: v for k, v in vb.items() if va.get(k) != v}]
            else:
                out[key] = [va, vb]
    return out


def run(scn: dict) -> dict:
    spec = scn["spec"]
    templates = spec["templates"]
    cfg = dict(scn["cfg"])
    cfg["initial_states"] = {"pyscript.p0": ["0", {"a0": 1}], "pyscript.p1": ["0", {"a1": 0}], "pyscript.p2": ["ok", {}]}
    w = World(cfg, render(scn))
    sub = "legacy" if cfg["legacy"] else "new"
    violations: list = []
    state = {"removed_any": False}

    def viol(cls, sig, detail):
        sig = {"subsystem": sub, **sig}
        if any("Handler is already defined" in (lg["msg"] or "") for lg in w.logs):
            # from here on the run has diverged at the known webhook-redefinition defect
            sig = {"subsystem": sub, "why": "webhook_handler_already_defined_on_redefinition"}
        violations.append({"class": cls, "sig": sig, "detail": detail, "t": w.vts()})

    async def driver(w: World):
        from homeassistant.exceptions import ServiceNotFound

        await w.started()
        # ---- reference model
        live: dict = {}          # key -> {"gen", "tmpl", "where"}
        gens: dict = {}          # key -> last generation number
        file_gen = {name: 0 for name in FILES}
        file_tmpl = dict(spec["files"])
        file_present = {name: name in spec["files"] for name in FILES}
        loaded = True
        entry_loaded = True
        p2 = "ok"
        a1 = 0
        census_by_key: dict = {}
        list_n = 0
        lost_n = 0
        expected_extra: list = []   # startup / shutdown markers expected in the current interval
        shared = {"owner": None}    # context that owns pyscript.svc_shared (reference model of the ownership rule)
        shared_calls: set = set()   # (key, gen) run by the probe call of the shared service in the current round
        racing: set = set()         # (key, gen) of definitions whose context was stopped while they were in progress:
        #                             whether their startup/shutdown markers appear is don't-care; they must never run
        #                             for an occurrence afterwards
        mark_pos = len(w.marks)

        def kinds_of(key):
            return templates[live[key]["tmpl"]]

        def ctx_of(key):
            return key if key.startswith("file_") else "main"

        def define(key, tmpl, where, gen_no):
            if where == "file" and key[len("file_"):] in spec.get("redef", []):
                racing.add((key, OLD_GEN + gen_no))  # the superseded first definition: its markers are don't-care
                w.probe("function_defined_twice_in_one_file")
            if key in live:
                remove(key, "redefine")
            live[key] = {"gen": gen_no, "tmpl": tmpl, "where": where}
            # refused when another context has a live declarer of the shared name; what else of a refused definition
            # is active is not stated (legacy: nothing is set up, new: the manager is rolled back)
            if "shr" in templates[tmpl] and shared["owner"] not in (None, ctx_of(key)):
                live[key]["refused"] = True
                racing.add((key, gen_no))  # its startup/shutdown markers are don't-care as well
                w.probe("shared_service_name_refused")
                return
            racing.discard((key, gen_no))
            if "shr" in templates[tmpl]:
                shared["owner"] = ctx_of(key)
            if "time" in templates[tmpl]:
                expected_extra.append(("run", key, gen_no, tmpl, "time", "startup"))

        def remove(key, why):
            ent = live.pop(key, None)
            if ent is None:
                return
            if "shr" in templates[ent["tmpl"]] and not ent.get("refused") and not any(
                    "shr" in templates[v["tmpl"]] and not v.get("refused") and ctx_of(k) == ctx_of(key)
                    for k, v in live.items()):
                shared["owner"] = None  # the last declaration of the owning context is gone: the name is free
            state["removed_any"] = True
            if "time" in templates[ent["tmpl"]] and not ent.get("refused"):
                expected_extra.append(("run", key, ent["gen"], ent["tmpl"], "time", "shutdown"))
            if "per" in templates[ent["tmpl"]]:
                w.probe("periodic_trigger_removed")

        for name, tmpl in spec["files"].items():
            define(f"file_{name}", tmpl, "file", 0)
        # the startup markers of the initial load happened before the driver started
        init_marks = [tuple(m["args"][:6]) for m in w.marks]
        want_init = sorted(expected_extra)
        got_init = sorted(t for t in init_marks if t[4] == "time" and t[5] in ("startup", "shutdown")
                          and (t[1], t[2]) not in racing)
        if got_init != want_init:
            viol("C09.startup_shutdown", {"when": "initial_load"}, f"initial load: startup markers {got_init}, expected {want_init}")
        expected_extra.clear()
        mark_pos = len(w.marks)

        async def settle_gc():
            await w.settle(0.3)
            w.gc_now()
            await w.settle(0.3)

        async def probe_round(tag):
            nonlocal a1, mark_pos
            exp = list(expected_extra)
            expected_extra.clear()
            # event
            w.fire("probe_ev", {"tag": tag})
            await w.settle(0.05)
            # state: p0 0 -> 1 -> 0 ; p1.a1 any-change
            w.set_state("pyscript.p0", "1", {"a0": 1})
            await w.settle(0.05)
            w.set_state("pyscript.p0", "0", {"a0": 1})
            await w.settle(0.05)
            a1 += 1
            w.set_state("pyscript.p1", "0", {"a1": a1})
            await w.settle(0.05)
            w.mqtt_publish("t/probe", json.dumps({"tag": tag}))
            await w.settle(0.05)
            for key in sorted(live):
                if "hook" in kinds_of(key):
                    try:
                        await w.webhook_post(f"hook_{key}", {"tag": tag})
                    except BaseException as exc:  # pylint: disable=broad-except
                        viol("C09.webhook_raised", {}, f"posting to hook_{key} raised {exc!r}")
            await w.settle(0.05)
            for key in sorted(set(list(live) + [f"file_{n}" for n in FILES] + SLOTS)):
                svc = f"svc_{key}"
                should = key in live and "svc" in kinds_of(key) and entry_loaded
                has = w.hass.services.has_service("pyscript", svc)
                if key in live and live[key].get("refused"):
                    should = has  # a refused definition: don't-care
                if has != should:
                    viol("C09.service_registration", {"should_exist": should},
                         f"after {tag}: service pyscript.{svc} exists={has}, reference says {should} (live {sorted(live)})")
                if has:
                    try:
                        await w.call_service("pyscript", svc, {"tag": tag}, blocking=True)
                    except ServiceNotFound:
                        pass
            # the shared service name: registered by nobody once no live definition declares it
            declarers = [k for k, v in live.items() if "shr" in templates[v["tmpl"]]]
            has_shared = w.hass.services.has_service("pyscript", "svc_shared")
            if has_shared and (not declarers or not entry_loaded):
                viol("C09.service_registration", {"should_exist": False, "shared": True},
                     f"after {tag}: service pyscript.svc_shared is registered although no live function declares it "
                     f"(live {sorted(live)})")
            if entry_loaded and not has_shared and any(not live[k].get("refused") for k in declarers):
                viol("C09.service_registration", {"should_exist": True, "shared": True},
                     f"after {tag}: service pyscript.svc_shared is not registered although a live function of the owning "
                     f"context declares it (live {live})")
            shared_calls.clear()
            if has_shared:
                n0 = len(w.marks)
                try:
                    await w.call_service("pyscript", "svc_shared", {"tag": tag}, blocking=True)
                except ServiceNotFound:
                    pass
                await w.settle(0.05)
                for m in w.marks[n0:]:
                    if m["args"][4] == "service":
                        shared_calls.add(id(m))
                        if m["args"][1] not in live or live[m["args"][1]]["gen"] != m["args"][2]:
                            # the registered handler is the one of the latest declaration; when that function goes
                            # away while an older declarer of the same context is still live, the handler stays
                            same_ctx = any(ctx_of(k) == ctx_of(m["args"][1]) and not live[k].get("refused")
                                           for k in declarers)
                            viol("C09.dead_function_ran",
                                 {"trigger": "service", "shared": True,
                                  "why": "older_declarer_in_same_context_keeps_name" if same_ctx else "unexplained"},
                                 f"after {tag}: pyscript.svc_shared ran {m['args'][1]} gen {m['args'][2]} which is not "
                                 f"live (live {live})")
            await w.settle(0.2)
            if entry_loaded:
                for key in sorted(live):
                    ent = live[key]
                    if ent.get("refused"):
                        continue
                    kinds = kinds_of(key)
                    base = ("run", key, ent["gen"], ent["tmpl"])
                    if "ev" in kinds:
                        exp.append(base + ("event", None))
                    if "st" in kinds:
                        exp.append(base + ("state", None, "pyscript.p0"))
                        exp.append(base + ("state", None, "pyscript.p1"))
                        w.probe("several_names_one_entity")
                    if "st2" in kinds:
                        if p2 != "zz":
                            exp.append(base + ("state", None, "pyscript.p0"))
                        w.probe("stale_condition_probe")
                    if "mqtt" in kinds:
                        exp.append(base + ("mqtt", None))
                    if "hook" in kinds:
                        exp.append(base + ("webhook", None))
                    if "svc" in kinds:
                        exp.append(base + ("service", None))
            got = []
            periodic_keys = {key for key in live if "per" in kinds_of(key)}
            for m in w.marks[mark_pos:]:
                args = m["args"]
                tup = tuple(args[:6])
                if (args[1], args[2]) in racing and args[4] == "time" and args[5] in ("startup", "shutdown"):
                    continue
                if args[1] in live and live[args[1]].get("refused") and live[args[1]]["gen"] == args[2]:
                    continue  # a refused definition: don't-care
                if id(m) in shared_calls:
                    continue
                if args[4] == "state":
                    tup = tup + (args[6],)
                if args[4] == "time" and args[5] not in ("startup", "shutdown"):
                    # a periodic run: allowed for live periodic definitions of that generation only
                    key, gen_no = args[1], args[2]
                    if key in periodic_keys and live[key]["gen"] == gen_no:
                        continue
                    if m["vt"] < state.get("last_op_settled", 0):
                        continue  # fired before the removal had settled
                    viol("C09.dead_function_ran", {"trigger": "periodic"},
                         f"after {tag}: periodic run of {key} gen {gen_no} which is not live (live {live})")
                    continue
                got.append(tup)
            mark_pos = len(w.marks)
            if sorted(got, key=repr) != sorted(exp, key=repr):
                missing = [e for e in exp if e not in got]
                extra = [g for g in got if g not in exp]
                dup = [g for g in set(got) if got.count(g) > exp.count(g) and g in exp]
                if extra:
                    dead = [g for g in extra if g[1] not in live or live[g[1]]["gen"] != g[2]]
                    cls = "C09.dead_function_ran" if dead else "C09.unexpected_run"
                    viol(cls, {"trigger": str((dead or extra)[0][4])},
                         f"after {tag}: runs {extra} are not expected (live {live}, p2={p2})")
                if missing:
                    kinds_missing = sorted({str(e[4]) for e in missing})
                    viol("C09.live_function_did_not_run", {"trigger": "+".join(kinds_missing)},
                         f"after {tag}: expected runs {missing} did not happen (live {live}, p2={p2}); got {got}")
                if dup and not extra:
                    viol("C09.ran_twice", {"trigger": str(dup[0][4])}, f"after {tag}: {dup} ran more than once")

        def census_check(tag):
            key = json.dumps([sorted((k, v["tmpl"], bool(v.get("refused"))) for k, v in live.items()), entry_loaded])
            cen = _census(w)
            if key in census_by_key:
                w.probe("same_live_set_seen_twice")
                diff = _diff(census_by_key[key][1], cen)
                if diff:
                    viol("C09.census_depends_on_history", {"tables": "+".join(sorted(diff))},
                         f"after {tag}: live set {key} had census {census_by_key[key][0]!r}-time values, now differs: {diff}")
            else:
                census_by_key[key] = (tag, cen)
            return cen

        census_check("start")
        await probe_round("start")
        for i, op in enumerate(scn["ops"]):
            kind = op["kind"]
            tag = f"op{i}:{kind}"
            if kind == "stall":
                w.loop.stall(op["s"])
                w.fault("stall")
                continue
            if kind == "set_p2":
                p2 = op["s"]
                w.set_state("pyscript.p2", p2, {})
                await w.settle(0.1)
                await probe_round(tag) if entry_loaded else None
                continue
            if not entry_loaded and kind not in ("setup",):
                continue
            if kind in ("make", "append"):
                if kind == "make":
                    key = op["slot"]
                    if key in live:
                        w.probe("redefined_in_slot")
                        if "hook" in kinds_of(key) and "hook" in templates[op["tmpl"]]:
                            w.probe("webhook_redefined")
                else:
                    list_n += 1
                    key = f"L{list_n}"
                gens[key] = gens.get(key, 0) + 1
                await w.call_service("pyscript", "lifecycle", {"cmd": kind, "slot": key, "gen": gens[key], "tmpl": op["tmpl"]})
                define(key, op["tmpl"], "closure", gens[key])
            elif kind == "make_lost":
                lost_n += 1
                key = f"X{lost_n}"
                racing.add((key, 1))
                w.probe("definition_dropped_at_once")
                await w.call_service("pyscript", "lifecycle", {"cmd": "lost", "slot": key, "gen": 1, "tmpl": op["tmpl"]})
            elif kind == "drop":
                if op["slot"] in live:
                    w.probe("closure_dropped_from_container")
                await w.call_service("pyscript", "lifecycle", {"cmd": "drop", "slot": op["slot"]})
                remove(op["slot"], "drop")
            elif kind == "clear":
                if any(v["where"] == "closure" for v in live.values()):
                    w.probe("container_cleared")
                await w.call_service("pyscript", "lifecycle", {"cmd": "clear"})
                for key in [k for k, v in live.items() if v["where"] == "closure"]:
                    remove(key, "clear")
            elif kind == "file_edit":
                name = op["name"]
                file_gen[name] += 1
                file_tmpl[name] = op["tmpl"]
                file_present[name] = True
                w.write_file(f"pyscript/g_{name}.py", _file_src(name, op["tmpl"], templates[op["tmpl"]], file_gen[name],
                                                                name in spec.get("redef", [])))
                await w.reload()
                w.probe("file_reloaded")
                define(f"file_{name}", op["tmpl"], "file", file_gen[name])
            elif kind == "file_delete":
                name = op["name"]
                if file_present[name]:
                    w.probe("file_deleted")
                file_present[name] = False
                w.delete_file(f"pyscript/g_{name}.py")
                await w.reload()
                remove(f"file_{name}", "file_delete")
            elif kind == "reload":
                await w.reload()
            elif kind == "make_racing":
                key = op["slot"]
                gens[key] = gens.get(key, 0) + 1
                racing.add((key, gens[key]))
                await w.call_service("pyscript", "lifecycle", {"cmd": "make", "slot": key, "gen": gens[key],
                                                               "tmpl": op["tmpl"]}, blocking=False)
                if op["after_ms"]:
                    await w.sleep(op["after_ms"] / 1000.0)
                w.probe("stop_while_definition_in_progress")
                if op["then"] == "unload":
                    await w.unload_entry()
                    for k in list(live):
                        remove(k, "unload")
                    entry_loaded = False
                    kind = "unload"
                else:
                    state["main_rev"] = state.get("main_rev", 0) + 1
                    w.write_file("pyscript/c09.py", render(scn)["pyscript/c09.py"] + f"# rev {state['main_rev']}\n")
                    await w.reload()
                    for k in [k for k, v in live.items() if v["where"] == "closure"]:
                        remove(k, "main_reload")
            elif kind == "unload":
                await w.unload_entry()
                for key in list(live):
                    remove(key, "unload")
                entry_loaded = False
            elif kind == "setup":
                if entry_loaded:
                    continue
                await w.setup_entry()
                entry_loaded = True
                w.probe("setup_again")
                for name in FILES:
                    if file_present[name]:
                        define(f"file_{name}", file_tmpl[name], "file", file_gen[name])
            await settle_gc()
            state["last_op_settled"] = w.loop.vt
            cen = census_check(tag)
            if kind == "unload":
                w.probe("unloaded_and_compared")
                pre = {k: w.census_pre_setup.get(k) for k in CENSUS_KEYS}
                pre["state_notify"] = {}
                now_c = dict(cen)
                now_c.pop("all_tasks", None)
                pre_services = {d: [s for s in v if not (d == "pyscript" and s in BUILTIN_SERVICES)]
                                for d, v in (pre.get("services") or {}).items()}
                now_services = {d: [s for s in v if not (d == "pyscript" and s in BUILTIN_SERVICES)]
                                for d, v in (now_c.get("services") or {}).items()}
                pre["services"] = {d: v for d, v in pre_services.items() if v}
                now_c["services"] = {d: v for d, v in now_services.items() if v}
                # Home Assistant's own once-listeners for 'started' are consumed and its registries add listeners
                # during set-up: not attributable to pyscript
                for tab in (pre, now_c):
                    tab["listeners"] = {k: v for k, v in tab["listeners"].items()
                                        if k not in ("entity_registry_updated", "homeassistant_started")}
                diff = _diff(pre, now_c)
                if diff:
                    viol("C09.leftover_after_unload", {"tables": "+".join(sorted(diff))},
                         f"after unload Home Assistant is not back to its pre-setup census: {diff}")
                # markers of the unload itself
                exp = sorted(expected_extra, key=repr)
                expected_extra.clear()
                got = sorted((tuple(m["args"][:6]) for m in w.marks[mark_pos:]
                              if not (m["args"][4] == "time" and m["args"][5] not in ("startup", "shutdown"))
                              and not ((m["args"][1], m["args"][2]) in racing and m["args"][4] == "time")), key=repr)
                mark_pos = len(w.marks)
                if got != exp:
                    viol("C09.startup_shutdown", {"when": "unload"}, f"unload: markers {got}, expected {exp}")
                continue
            await probe_round(tag)
        state["live_end"] = copy.deepcopy(live)
        state["entry_loaded"] = entry_loaded
        state["mark_pos"] = len(w.marks)
        state["racing"] = set(racing)

    w.run(driver)
    # ---- HA stop: shutdown markers exactly once for every live definition with a shutdown trigger
    if state.get("entry_loaded"):
        exp = sorted((("run", key, ent["gen"], ent["tmpl"], "time", "shutdown") for key, ent in state["live_end"].items()
                      if "time" in templates[ent["tmpl"]] and not ent.get("refused")), key=repr)
        got = sorted((tuple(m["args"][:6]) for m in w.marks[state["mark_pos"]:]
                      if m["args"][4] == "time" and m["args"][5] in ("startup", "shutdown")
                      and (m["args"][1], m["args"][2]) not in state.get("racing", ())), key=repr)
        if got != exp:
            viol("C09.startup_shutdown", {"when": "ha_stop"}, f"at Home Assistant stop: markers {got}, expected {exp}")
    if w.ha_exceptions:
        viol("C09.escaped_to_ha", {}, f"Home Assistant logged/handled: {w.ha_exceptions[:2]}")
    violations.sort(key=lambda v: v.get("t", 0.0))
    return base_result(w, violations, state["removed_any"], {"ops": len(scn["ops"])})
