"""Deterministic simulation harness for custom_components/pyscript.

Importing this package puts the repository under test on ``sys.path`` (default
``/repo``; ``VERIF_REPO`` overrides it for sensitivity runs on scratch copies) so
that every check runs the current working tree.
"""

import os
import sys

REPO = os.environ.get("VERIF_REPO", "/repo")
VERIF = os.path.dirname(os.path.dirname(os.path.abspath(__file__)))

if REPO not in sys.path:
    sys.path.insert(0, REPO)

# guard for hooks inside /repo (none are needed at present; see MANIFEST.hooks)
os.environ.setdefault("PYSCRIPT_VERIF", "1")
