"""Scenario minimisation: ddmin over list-valued fields + per-property simplifiers.

A candidate is kept only when it still fails with the same class and signature.
"""

from __future__ import annotations

import copy
import time

from .driver import run_one, viol_key


def _get(scn, path):
    cur = scn
    for key in path:
        cur = cur[key]
    return cur


def _set(scn, path, value):
    cur = scn
    for key in path[:-1]:
        cur = cur[key]
    cur[path[-1]] = value


def _list_paths(mod, scn):
    paths = []
    for path in getattr(mod, "SHRINK_LISTS", [["ops"]]):
        if "*" in path:
            idx = path.index("*")
            try:
                base = _get(scn, path[:idx])
            except (KeyError, IndexError, TypeError):
                continue
            for i in range(len(base)):
                paths.append(path[:idx] + [i] + path[idx + 1 :])
        else:
            paths.append(path)
    out = []
    for path in paths:
        try:
            if isinstance(_get(scn, path), list):
                out.append(path)
        except (KeyError, IndexError, TypeError):
            continue
    return out


def shrink(mod, scn, target, budget_s=60.0):
    """Return (smaller scenario, its result, number of accepted steps)."""
    key = viol_key(target)
    deadline = time.time() + budget_s
    tries = [0]

    def fails(cand):
        tries[0] += 1
        res = run_one(mod, cand)
        if "harness_error" in res:
            return None
        for viol in res.get("violations", []):
            if viol_key(viol) == key:
                return res
        return None

    best = copy.deepcopy(scn)
    best.pop("expect", None)
    best_res = fails(best)
    if best_res is None:
        # not reproducible in this process: return as is
        return best, {"violations": [], "trace_digest": None}, 0
    steps = 0
    progress = True
    while progress and time.time() < deadline:
        progress = False
        # ---- ddmin on every list
        done_paths = set()
        while time.time() < deadline:
            todo = [pth for pth in _list_paths(mod, best) if tuple(pth) not in done_paths]
            if not todo:
                break
            path = todo[0]
            done_paths.add(tuple(path))
            items = _get(best, path)
            n = 2
            while len(items) >= 1 and time.time() < deadline:
                chunk = max(1, len(items) // n)
                removed = False
                start = 0
                while start < len(items) and time.time() < deadline:
                    cand_items = items[:start] + items[start + chunk :]
                    cand = copy.deepcopy(best)
                    _set(cand, path, copy.deepcopy(cand_items))  # (items are still the dicts of `best`)
                    if hasattr(mod, "normalize"):
                        cand = mod.normalize(cand)
                    res = fails(cand) if cand is not None else None
                    if res is not None:
                        best, best_res = cand, res
                        items = _get(best, path)
                        steps += 1
                        removed = True
                        progress = True
                    else:
                        start += chunk
                if chunk == 1 and not removed:
                    break
                if not removed:
                    n = min(len(items), n * 2) if len(items) else 1
                    if chunk == 1:
                        break
                else:
                    n = max(2, n - 1)
                if len(items) == 0:
                    break
        # ---- per-property simplifiers
        if hasattr(mod, "simplify"):
            for cand in mod.simplify(copy.deepcopy(best)):
                if time.time() >= deadline:
                    break
                if cand is None:
                    continue
                res = fails(cand)
                if res is not None:
                    best, best_res = cand, res
                    steps += 1
                    progress = True
                    break
    return best, best_res, steps
