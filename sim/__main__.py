import sys

from .driver import main

sys.exit(main())
