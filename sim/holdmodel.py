"""Reference timeline automaton for state_check_now / state_hold / state_hold_false.

Written from docs/reference.rst and the C05 property text, not from either implementation.

Inputs: the definition instant t0 with the initial truth of the expression, and the sequence of
*evaluating* events (time, truth, args).  Output: the list of expected fires (time, args).

Rules:
* At definition, if check_now or hold_false is given the expression is evaluated once.  With
  hold_false, a false result starts the false period (false_since = t0); a true result leaves it
  unset.  With check_now, a true result is a candidate carrying only trigger_type.
* A true evaluation at t is a candidate if hold_false is None, or if false_since is set and
  t - false_since >= H; in either hold_false case false_since is cleared.  A true evaluation that is
  ignored changes nothing else.
* A false evaluation sets false_since = t if unset (hold_false given) and cancels a pending hold.
* A candidate fires at once (hold None) or, if no hold is pending, starts one remembering this
  event's arguments; a still pending hold fires at hold_since + S with the remembered arguments.
* Changes that do not cause an evaluation are not inputs.
"""

from __future__ import annotations


DEVIATIONS = [
    # explanatory alternative semantics; used only to LABEL a mismatch, never to excuse one
    "noneval_counts_as_false",        # a delivered change that causes no evaluation acts as a false evaluation
    "hold_args_of_latest_event",      # a hold fires with the arguments of the latest delivered change
    "init_true_with_hold_false_does_not_fire",  # check_now + hold_false: initially true does not fire
    "wait_until_init_true_drops_hold_false",    # wait_until: initially true forgets hold_false for good
    "wait_until_init_false_does_not_start_false_period",  # wait_until + check_now: initial false ignored
]


def timeline(t0: float, init_truth: bool | None, evals: list[dict], check_now: bool, hold, hold_false,
             t_end: float, first_only: bool = False, dev: frozenset = frozenset()) -> list[dict]:
    """evals: [{"t", "truth", "args", "id", "noneval"?}] sorted by t; items with noneval=True are
    delivered changes that do not cause an evaluation (ignored by the reference semantics)."""
    fires: list[dict] = []
    last_args = [None]
    false_since = None
    hold_since = None
    hold_args = None
    hold_id = None

    def flush_hold(now: float) -> bool:
        """Fire a pending hold that expires before ``now``."""
        nonlocal hold_since, hold_args, hold_id
        if hold_since is not None and hold_since + hold <= now:
            args = hold_args
            if "hold_args_of_latest_event" in dev and last_args[0] is not None:
                args = last_args[0]
            fires.append({"t": hold_since + hold, "args": args, "id": hold_id, "via": "hold"})
            hold_since = None
            hold_args = None
            hold_id = None
            return True
        return False

    def candidate(now: float, args: dict, ident) -> None:
        nonlocal hold_since, hold_args, hold_id
        if hold is None:
            fires.append({"t": now, "args": args, "id": ident, "via": "direct"})
        elif hold_since is None:
            hold_since = now
            hold_args = args
            hold_id = ident

    if (check_now or hold_false is not None) and init_truth is not None:
        if hold_false is not None:
            false_since = None if init_truth else t0
            if (not init_truth and check_now and "wait_until_init_false_does_not_start_false_period" in dev):
                false_since = None
        if check_now and init_truth:
            if not (hold_false is not None and "init_true_with_hold_false_does_not_fire" in dev):
                candidate(t0, {"trigger_type": "state"}, "init")
            if "wait_until_init_true_drops_hold_false" in dev:
                hold_false = None
    for ev in evals:
        flush_hold(ev["t"])
        if first_only and fires:
            break
        if ev.get("noneval"):
            if "hold_args_of_latest_event" in dev:
                last_args[0] = ev["args"]
            if "noneval_counts_as_false" not in dev:
                continue
            ev = dict(ev, truth=False)
        else:
            last_args[0] = ev["args"]
        if ev["truth"]:
            if hold_false is None:
                candidate(ev["t"], ev["args"], ev.get("id"))
            else:
                ok = false_since is not None and ev["t"] - false_since >= hold_false
                false_since = None
                if ok:
                    candidate(ev["t"], ev["args"], ev.get("id"))
        else:
            if hold_false is not None and false_since is None:
                false_since = ev["t"]
            hold_since = None
            hold_args = None
            hold_id = None
    flush_hold(t_end)
    if first_only:
        return fires[:1]
    return fires
