"""Helpers shared by the property modules: per-run configuration, op timing, op application."""

from __future__ import annotations

import asyncio
import random

from .world import World

TZS = ["US/Pacific", "Europe/Berlin", "Australia/Sydney", "UTC"]

# ordinary start instants (UTC); DST-sensitive properties use their own pools
EPOCHS = [
    "2024-05-14T17:00:00.000000",
    "2024-02-29T08:15:30.250000",
    "2024-12-31T22:59:58.500000",
    "2025-01-15T03:30:00.000000",
    "2024-07-04T12:00:00.125000",
]


def gen_cfg(rng: random.Random, legacy: bool | None = None, faults: bool = True) -> dict:
    """Per-run environment (swarm style: each knob varies per run)."""
    cfg = {
        "legacy": rng.random() < 0.5 if legacy is None else legacy,
        "tz": rng.choice(TZS),
        "epoch_utc": rng.choice(EPOCHS),
        "drift": 0.0,
        "cost_us": rng.choice([10, 50, 200, 1000]),
        "exec_latency_ms": [0.0, 0.0],
        "timer_late_ms": 0.0,
        "env_seed": rng.randrange(1 << 30),
        "set_order_salt": rng.choice([0, 0, 1, 2, 3]),
    }
    if faults:
        if rng.random() < 0.5:
            cfg["exec_latency_ms"] = [0.0, rng.choice([0.5, 5.0, 30.0])]
        if rng.random() < 0.4:
            cfg["timer_late_ms"] = rng.choice([0.2, 1.0, 3.0])
        if rng.random() < 0.3:
            cfg["drift"] = rng.choice([1e-4, -1e-4, 1e-3, -1e-3])
    return cfg


def gen_delay(rng: random.Random, burst_p: float = 0.35, grid: float = 0.25, max_steps: int = 8) -> dict:
    """Timing of an op relative to the previous one: same pass, k passes later, or on a time grid."""
    roll = rng.random()
    if roll < burst_p:
        return {"dt": 0.0}
    if roll < burst_p + 0.15:
        return {"passes": rng.randint(1, 4)}
    return {"dt": grid * rng.randint(1, max_steps)}


async def wait_op(w: World, op: dict) -> None:
    """Apply the timing part of an op."""
    if op.get("dt", 0.0) > 0.0:
        await w.sleep(op["dt"])
    elif op.get("passes", 0) > 0:
        w.fault("gap_iter")
        await w.passes(op["passes"])
    else:
        w.fault("burst")


async def apply_common(w: World, op: dict) -> bool:
    """Apply an op of a common kind (lenient). Returns False if the kind is unknown."""
    kind = op["kind"]
    if kind == "set":
        w.set_state(op["e"], op["s"], op.get("a") or {})
    elif kind == "remove":
        w.remove_state(op["e"])
    elif kind == "fire":
        w.fire(op["type"], op.get("data") or {})
    elif kind == "mqtt":
        w.mqtt_publish(op["topic"], op["payload"])
    elif kind == "webhook":
        try:
            await w.webhook_post(op["id"], op.get("payload") or {}, as_json=op.get("json", True))
        except (Exception, asyncio.CancelledError) as exc:  # pylint: disable=broad-except
            # the handler pyscript registered raised into Home Assistant's webhook dispatcher
            w.ha_exceptions.append({"vt": w.vts(), "message": f"webhook handler raised {type(exc).__name__}",
                                    "exc": repr(exc)})
            w.trace.append(["op_exc", "webhook", repr(exc)[:100]])
    elif kind == "stall":
        w.loop.stall(op["s"])
        w.fault("stall")
    elif kind == "gc":
        w.gc_now()
    elif kind == "settle":
        await w.settle(op.get("h", 0.0))
    elif kind == "nop":
        pass
    else:
        return False
    return True


def base_result(w: World, violations: list, nontrivial: bool, extra: dict | None = None) -> dict:
    faults = dict(w.faults)
    st = w.loop.stats
    if st["exec_delayed"]:
        faults["exec_latency"] = st["exec_delayed"]
    if st["exec_reordered"]:
        faults["exec_reorder"] = st["exec_reordered"]
    if st["timer_late"]:
        faults["timer_late"] = st["timer_late"]
    if w.cfg.get("drift"):
        faults["clock_drift"] = 1
    return {
        "violations": violations,
        "nontrivial": nontrivial,
        "trace_digest": w.digest(),
        "sim_seconds": round(w.loop.vt - w.clock.vt0, 3),
        "iterations": w.loop.iterations,
        "faults": faults,
        "reach": dict(w.reach),
        "subsystem": "legacy" if w.cfg["legacy"] else "new",
        "extra": extra or {},
    }
