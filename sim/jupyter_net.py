"""Simulated TCP transport and an independent ZMTP 3.0 / Jupyter wire client (harness side).

Nothing in here imports ``custom_components.pyscript``: the encoder, the incremental decoder and
the HMAC signing are the harness' own implementation of ZMTP 3.0 (RFC 23) and of the Jupyter
wire protocol, so that the kernel's ``ZmqSocket``/``Kernel`` code is checked against a second
implementation and not against itself.

Transport model: the kernel opens its listening sockets through ``asyncio.start_server``; the
seam replaces that function by :meth:`SimNet.start_server`, which records the client-connected
callback per port.  :meth:`SimNet.connect` creates one "TCP connection": a real
``asyncio.StreamReader`` (fed by the simulator, in fragments, with virtual-time delays) plus a
:class:`FakeWriter` that collects what the kernel writes and feeds it to a :class:`Decoder`.
"""

from __future__ import annotations

import asyncio
import hashlib
import hmac
import json
import random
import struct

DELIM = b"<IDS|MSG>"

# ZMTP 3.0 greeting: signature(10) version(2) mechanism(20) as-server(1) filler(31) = 64 bytes
GREETING = (
    b"\xff" + b"\x00" * 8 + b"\x7f" + b"\x03\x00" + b"NULL".ljust(20, b"\x00") + b"\x00" + b"\x00" * 31
)
assert len(GREETING) == 64

FLAG_MORE, FLAG_LONG, FLAG_CMD = 0x01, 0x02, 0x04


# ----------------------------------------------------------------------------- encoder
def enc_frame(body: bytes, more: bool = False, command: bool = False) -> bytes:
    flags = (FLAG_MORE if more else 0) | (FLAG_CMD if command else 0)
    if len(body) > 255:
        return bytes([flags | FLAG_LONG]) + struct.pack(">Q", len(body)) + body
    return bytes([flags, len(body)]) + body


def enc_message(frames: list[bytes]) -> bytes:
    out = bytearray()
    for i, body in enumerate(frames):
        out += enc_frame(body, more=i < len(frames) - 1)
    return bytes(out)


def enc_command(name: bytes, props: list[tuple[bytes, bytes]]) -> bytes:
    body = bytearray([len(name)]) + name
    for key, val in props:
        body += bytes([len(key)]) + key + struct.pack(">L", len(val)) + val
    return enc_frame(bytes(body), command=True)


def client_hello(sock_type: bytes, identity: bytes | None = None) -> bytes:
    """Everything a ZMTP peer sends when it connects: greeting + READY."""
    props = [(b"Socket-Type", sock_type)]
    if identity is not None:
        props.append((b"Identity", identity))
    return GREETING + enc_command(b"READY", props)


def sign(key: bytes, frames: list[bytes]) -> bytes:
    """Jupyter message signature: hex HMAC-SHA256 over the concatenated signed frames."""
    return hmac.new(key, b"".join(frames), hashlib.sha256).hexdigest().encode("ascii")


def jdump(obj) -> bytes:
    return json.dumps(obj, separators=(",", ":"), sort_keys=True).encode("utf-8")


def build_wire(key: bytes, identities: list[bytes], header: dict, parent: dict, metadata: dict,
               content: dict) -> list[bytes]:
    """Frames of a signed Jupyter message: ids..., DELIM, signature, header, parent, metadata, content."""
    signed = [jdump(header), jdump(parent), jdump(metadata), jdump(content)]
    return list(identities) + [DELIM, sign(key, signed)] + signed


def split_wire(frames: list[bytes]):
    """-> (identities, signature, signed_frames) or None when the delimiter is missing."""
    for i, frame in enumerate(frames):
        if frame == DELIM:
            if len(frames) < i + 2:
                return None
            return frames[:i], frames[i + 1], frames[i + 2 :]
    return None


def parse_jupyter(frames: list[bytes], key: bytes) -> dict:
    """Decode a Jupyter message the way a client does; never raises.

    ``ok`` is False when the frame list is not a Jupyter message at all; ``sig_ok`` says whether
    the signature verifies with ``key`` over the four message frames.
    """
    out = {"ok": False, "sig_ok": False, "ids": [], "nframes": len(frames)}
    parts = split_wire(frames)
    if parts is None:
        out["why"] = "no delimiter"
        return out
    ids, sig, signed = parts
    out["ids"] = ids
    if len(signed) < 4:
        out["why"] = f"{len(signed)} message frames"
        return out
    try:
        header, parent, meta, content = (json.loads(f.decode("utf-8")) for f in signed[:4])
    except (ValueError, UnicodeDecodeError) as exc:
        out["why"] = f"undecodable: {exc}"
        return out
    if not all(isinstance(x, dict) for x in (header, parent, meta, content)):
        out["why"] = "frame is not a JSON object"
        return out
    out.update({"ok": True, "header": header, "parent": parent, "metadata": meta, "content": content,
                "extra_frames": len(signed) - 4,
                "sig_ok": hmac.compare_digest(sig, sign(key, signed[:4])),
                "type": header.get("msg_type")})
    return out


# ----------------------------------------------------------------------------- decoder
class Decoder:
    """Incremental ZMTP 3.0 decoder for one direction of one connection.

    ``feed(data, stamp)`` appends events to ``events``:
    ``{"k": "greeting"|"cmd"|"msg", "stamp": stamp of the write that completed it, ...}``.
    ``stamp`` is whatever the caller passes (sequence number, virtual time).
    """

    def __init__(self, expect_greeting: bool = True) -> None:
        self.buf = bytearray()
        self.need_greeting = expect_greeting
        self.events: list[dict] = []
        self.frames: list[bytes] = []
        self.error: str | None = None
        self.consumed = 0
        self.layout: list[dict] = []  # per frame: offsets in the stream

    def feed(self, data: bytes, stamp=None) -> None:
        if self.error:
            return
        self.buf += data
        while True:
            if self.need_greeting:
                if len(self.buf) < 64:
                    return
                greeting = bytes(self.buf[:64])
                del self.buf[:64]
                self.consumed += 64
                self.need_greeting = False
                if greeting[0] != 0xFF or greeting[9] != 0x7F or greeting[10] < 3:
                    self.error = f"bad greeting {greeting[:12].hex()}"
                    return
                self.events.append({"k": "greeting", "stamp": stamp, "mech": greeting[12:32].rstrip(b"\x00"),
                                    "raw": greeting})
                continue
            if len(self.buf) < 2:
                return
            flags = self.buf[0]
            if flags & ~0x07:
                self.error = f"reserved flag bits set: {flags:#x} at offset {self.consumed}"
                return
            if flags & FLAG_LONG:
                if len(self.buf) < 9:
                    return
                size = struct.unpack(">Q", bytes(self.buf[1:9]))[0]
                hdr = 9
            else:
                size = self.buf[1]
                hdr = 2
            if size > (1 << 26):
                self.error = f"absurd frame size {size} at offset {self.consumed}"
                return
            if len(self.buf) < hdr + size:
                return
            body = bytes(self.buf[hdr : hdr + size])
            self.layout.append({"off": self.consumed, "hdr": hdr, "size": size, "flags": flags})
            del self.buf[: hdr + size]
            self.consumed += hdr + size
            if flags & FLAG_CMD:
                if flags & FLAG_MORE:
                    self.error = "command frame with MORE"
                    return
                try:
                    nlen = body[0]
                    name = body[1 : 1 + nlen]
                    rest = body[1 + nlen :]
                    props = []
                    while rest:
                        klen = rest[0]
                        key = rest[1 : 1 + klen]
                        (vlen,) = struct.unpack(">L", rest[1 + klen : 5 + klen])
                        val = rest[5 + klen : 5 + klen + vlen]
                        if len(val) != vlen:
                            raise ValueError("short property value")
                        props.append((bytes(key), bytes(val)))
                        rest = rest[5 + klen + vlen :]
                except (IndexError, struct.error, ValueError) as exc:
                    self.error = f"malformed command: {exc}"
                    return
                self.events.append({"k": "cmd", "stamp": stamp, "name": bytes(name), "props": props})
                continue
            self.frames.append(body)
            if not flags & FLAG_MORE:
                self.events.append({"k": "msg", "stamp": stamp, "frames": self.frames})
                self.frames = []

    def messages(self) -> list[dict]:
        return [ev for ev in self.events if ev["k"] == "msg"]

    def pending(self) -> bool:
        """Bytes or frames of an unfinished message are buffered."""
        return bool(self.buf) or bool(self.frames)


def frame_layout(stream: bytes) -> list[dict] | None:
    """Offsets of every frame of a greeting-less ZMTP stream, or None if it does not parse."""
    dec = Decoder(expect_greeting=False)
    dec.feed(stream)
    if dec.error or dec.buf:
        return None
    return dec.layout


# ----------------------------------------------------------------------------- payload bytes
def payload(length: int, seed: int) -> bytes:
    """Deterministic pseudo-random bytes; seeds 0..3 give degenerate patterns."""
    if length <= 0:
        return b""
    if seed == 0:
        return b"\x00" * length
    if seed == 1:
        return b"\xff" * length
    if seed == 2:
        return bytes((i & 0xFF) for i in range(length))
    if seed == 3:
        # looks like frame headers: flag bytes and lengths
        pat = b"\x01\x00\x00\x02\x03\xff\x04\x06\x00\x00\x00\x00\x00\x00\x01\x00"
        return (pat * (length // len(pat) + 1))[:length]
    return random.Random(seed).randbytes(length)


# ----------------------------------------------------------------------------- transport
class FakeWriter:
    """Stands in for ``asyncio.StreamWriter`` on the kernel side of a connection."""

    def __init__(self, conn: "Conn") -> None:
        self.conn = conn
        self.closed = False
        self.writes_after_close = 0

    def write(self, data) -> None:
        data = bytes(data)
        if self.closed:
            self.writes_after_close += 1
            return
        self.conn._on_kernel_write(data)

    def writelines(self, lines) -> None:
        for line in lines:
            self.write(line)

    async def drain(self) -> None:
        mode = self.conn.net.drain_mode
        if self.closed:
            await asyncio.sleep(0)
            return
        if mode == "yield":
            await asyncio.sleep(0)
        elif mode == "slow":
            await asyncio.sleep(self.conn.net.drain_delay)

    def close(self) -> None:
        if not self.closed:
            self.closed = True
            self.conn._on_kernel_close()

    def is_closing(self) -> bool:
        return self.closed

    async def wait_closed(self) -> None:
        return None

    def can_write_eof(self) -> bool:
        return False

    def get_extra_info(self, name, default=None):
        if name == "peername":
            return ("127.0.0.1", 40000 + self.conn.cid)
        return default

    @property
    def transport(self):
        return self


class FakeServer:
    """What ``asyncio.start_server`` returns."""

    def __init__(self, net: "SimNet", port: int, callback) -> None:
        self.net = net
        self.port = port
        self.callback = callback
        self.open = True

    def close(self) -> None:
        if self.open:
            self.open = False
            self.net.log.append(["server_close", self.port])
            if self.net.servers.get(self.port) is self:
                del self.net.servers[self.port]

    async def wait_closed(self) -> None:
        return None

    def is_serving(self) -> bool:
        return self.open

    @property
    def sockets(self):
        return []


class Conn:
    """One simulated TCP connection to a kernel port (client view)."""

    def __init__(self, net: "SimNet", cid: int, port: int, name: str) -> None:
        self.net = net
        self.cid = cid
        self.port = port
        self.name = name
        self.reader = asyncio.StreamReader(limit=net.reader_limit)
        self.writer = FakeWriter(self)
        self.decoder = Decoder(expect_greeting=True)
        self.task = None
        self.sent = 0  # bytes fed towards the kernel
        self.received = 0  # bytes written by the kernel
        self.eof_sent = False
        self.closed_by_kernel_at = None  # stamp
        self.fragments = 0

    # --- kernel -> client
    def _on_kernel_write(self, data: bytes) -> None:
        stamp = self.net.stamp()
        self.received += len(data)
        self.decoder.feed(data, stamp)

    def _on_kernel_close(self) -> None:
        self.closed_by_kernel_at = self.net.stamp()
        self.net.log.append(["kernel_close", self.name, self.cid])

    # --- client -> kernel
    def feed(self, data: bytes) -> None:
        if self.eof_sent:
            raise RuntimeError("feed after eof")
        if data:
            self.reader.feed_data(data)
            self.sent += len(data)
            self.fragments += 1

    async def send(self, data: bytes, cuts: list[int] | None = None, delays: list[float] | None = None) -> dict:
        """Feed ``data`` in fragments cut at ``cuts`` with ``delays[i]`` before fragment i+1.

        delay 0 -> next fragment in the same loop pass (two segments read by one wake-up),
        delay < 0 -> one loop pass in between, delay > 0 -> virtual seconds.
        Returns {"t_done": (seq, vt)}.
        """
        pos = sorted({c for c in (cuts or []) if 0 < c < len(data)})
        edges = [0] + pos + [len(data)]
        delays = delays or []
        for i in range(len(edges) - 1):
            if i > 0:
                dly = delays[(i - 1) % len(delays)] if delays else -1
                if dly > 0:
                    await asyncio.sleep(dly)
                elif dly < 0:
                    await asyncio.sleep(0)
            self.feed(data[edges[i] : edges[i + 1]])
        return {"stamp": self.net.stamp(), "fragments": len(edges) - 1}

    def eof(self) -> None:
        if not self.eof_sent:
            self.eof_sent = True
            self.reader.feed_eof()
            self.net.log.append(["client_eof", self.name, self.cid])

    @property
    def usable(self) -> bool:
        return not self.eof_sent and self.closed_by_kernel_at is None


class SimNet:
    """The simulated network: listening ports and connections."""

    def __init__(self, loop_time, busy_ports=(), drain_mode: str = "none", drain_delay: float = 0.001,
                 reader_limit: int = 2 ** 16) -> None:
        self.loop_time = loop_time  # callable -> virtual time
        self.busy_ports = set(busy_ports)
        self.drain_mode = drain_mode
        self.drain_delay = drain_delay
        self.reader_limit = reader_limit
        self.servers: dict[int, FakeServer] = {}
        self.listen_order: list[tuple[int, str]] = []
        self.conns: list[Conn] = []
        self.seq = 0
        self.log: list = []
        self.bind_failures = 0

    def stamp(self) -> tuple[int, float]:
        self.seq += 1
        return (self.seq, self.loop_time())

    async def start_server(self, client_connected_cb, host=None, port=None, **_kwargs):
        if port in self.busy_ports or port in self.servers:
            self.bind_failures += 1
            raise OSError(98, f"error while attempting to bind on address ('{host}', {port}): address already in use")
        server = FakeServer(self, port, client_connected_cb)
        self.servers[port] = server
        self.listen_order.append((port, getattr(client_connected_cb, "__name__", "?")))
        self.log.append(["listen", port, getattr(client_connected_cb, "__name__", "?")])
        return server

    def connect(self, port: int, name: str) -> Conn:
        server = self.servers.get(port)
        if server is None or not server.open:
            raise ConnectionRefusedError(port)
        conn = Conn(self, len(self.conns) + 1, port, name)
        self.conns.append(conn)
        self.log.append(["connect", name, conn.cid, port])
        res = server.callback(conn.reader, conn.writer)
        if asyncio.iscoroutine(res):
            conn.task = asyncio.get_event_loop().create_task(res)
        return conn
