"""Independent calendar oracle for pyscript time specifications (C06, C07).

Specifications are generated as data, printed to pyscript syntax by ``*_src`` and enumerated /
matched here from the documentation (docs/reference.rst, @time_trigger and @time_active), never by
calling pyscript.  All datetimes are naive local wall-clock times unless stated otherwise.

datetime := {"date": DATE, "time": TIME, "off": seconds}
DATE     := {"k": "none"} | {"k": "full", "y","m","d"} | {"k": "md", "m","d"} | {"k": "dow", "dow": 0..6 (0 = Sunday)}
            | {"k": "now"}
TIME     := {"k": "hms", "h","m","s"} | {"k": "noon"} | {"k": "midnight"} | {"k": "sunrise"} | {"k": "sunset"}
            | {"k": "none"}
"""

from __future__ import annotations

import datetime as dt
import zoneinfo

DOW_NAMES = ["sun", "mon", "tue", "wed", "thu", "fri", "sat"]
UTC = dt.timezone.utc


# ------------------------------------------------------------------ printing
def _off_src(off: float) -> str:
    if not off:
        return ""
    sign = "+" if off > 0 else "-"
    val = abs(off)
    for unit, scale in (("w", 604800), ("d", 86400), ("h", 3600), ("min", 60)):
        if val >= scale and val % scale == 0:
            return f" {sign} {int(val // scale)}{unit}"
    if val == int(val):
        return f" {sign} {int(val)}s"
    return f" {sign} {val}s"


def datetime_src(spec: dict) -> str:
    date, time = spec["date"], spec["time"]
    parts = []
    if date["k"] == "now":
        return "now" + _off_src(spec.get("off", 0))
    if date["k"] == "full":
        parts.append(f"{date['y']}/{date['m']:02d}/{date['d']:02d}")
    elif date["k"] == "md":
        parts.append(f"{date['m']}/{date['d']}")
    elif date["k"] == "dow":
        parts.append(DOW_NAMES[date["dow"]])
    if time["k"] == "hms":
        sec = time.get("s", 0)
        if sec:
            parts.append(f"{time['h']}:{time['m']:02d}:{sec:02d}" if sec == int(sec) else f"{time['h']}:{time['m']:02d}:{sec}")
        else:
            parts.append(f"{time['h']}:{time['m']:02d}")
    elif time["k"] in ("noon", "midnight", "sunrise", "sunset"):
        parts.append(time["k"])
    return " ".join(parts) + _off_src(spec.get("off", 0))


def interval_src(iv: float) -> str:
    for unit, scale in (("w", 604800), ("d", 86400), ("h", 3600), ("min", 60)):
        if iv >= scale and iv % scale == 0:
            return f"{int(iv // scale)}{unit}"
    return f"{int(iv)}s" if iv == int(iv) else f"{iv}s"


def spec_src(spec: dict) -> str:
    if spec["type"] == "once":
        return f"once({datetime_src(spec['at'])})"
    if spec["type"] == "period":
        args = [datetime_src(spec["start"]), interval_src(spec["iv"])]
        if spec.get("end") is not None:
            args.append(datetime_src(spec["end"]))
        return f"period({', '.join(args)})"
    if spec["type"] == "cron":
        return f"cron({spec['expr']})"
    if spec["type"] == "range":
        return ("not " if spec.get("neg") else "") + f"range({datetime_src(spec['start'])}, {datetime_src(spec['end'])})"
    raise ValueError(spec)


# ------------------------------------------------------------------ local <-> absolute
class Zone:
    def __init__(self, tzname: str) -> None:
        self.tz = zoneinfo.ZoneInfo(tzname)

    def to_utc(self, local: dt.datetime) -> dt.datetime:
        return local.replace(tzinfo=self.tz).astimezone(UTC)

    def to_local(self, utc: dt.datetime) -> dt.datetime:
        return utc.astimezone(self.tz).replace(tzinfo=None)

    def irregular(self, local: dt.datetime) -> bool:
        """True if the wall time does not exist (gap) or exists twice (fold) or is within an hour of a change."""
        a = local.replace(tzinfo=self.tz, fold=0)
        b = local.replace(tzinfo=self.tz, fold=1)
        if a.utcoffset() != b.utcoffset():
            return True
        back = a.astimezone(UTC).astimezone(self.tz).replace(tzinfo=None)
        return back != local

    def offset_changes_between(self, l1: dt.datetime, l2: dt.datetime) -> bool:
        return l1.replace(tzinfo=self.tz).utcoffset() != l2.replace(tzinfo=self.tz).utcoffset()


# ------------------------------------------------------------------ time of day / date resolution
def _time_on_day(time: dict, day: dt.date, sun) -> dt.datetime | None:
    base = dt.datetime(day.year, day.month, day.day)
    if time["k"] == "hms":
        return base + dt.timedelta(hours=time["h"], minutes=time["m"], seconds=time.get("s", 0))
    if time["k"] == "noon":
        return base + dt.timedelta(hours=12)
    if time["k"] in ("midnight", "none"):
        return base
    if time["k"] in ("sunrise", "sunset"):
        val = sun(time["k"], day)
        if val is None:
            return None
        return dt.datetime(day.year, day.month, day.day, val.hour, val.minute, val.second)
    raise ValueError(time)


def _date_matches(date: dict, day: dt.date) -> bool:
    if date["k"] == "none":
        return True
    if date["k"] == "full":
        return (day.year, day.month, day.day) == (date["y"], date["m"], date["d"])
    if date["k"] == "md":
        return (day.month, day.day) == (date["m"], date["d"])
    if date["k"] == "dow":
        return day.isoweekday() % 7 == date["dow"]
    raise ValueError(date)


def once_instants(at: dict, startup: dt.datetime, lo: dt.datetime, hi: dt.datetime, sun) -> list[dt.datetime]:
    """Local wall instants in (lo, hi] that once(at) denotes."""
    off = dt.timedelta(seconds=at.get("off", 0))
    if at["date"]["k"] == "now":
        inst = startup + off
        return [inst] if lo < inst <= hi or inst == startup == lo else []
    out = []
    day = (lo - off).date() - dt.timedelta(days=1)
    last = (hi - off).date() + dt.timedelta(days=1)
    while day <= last:
        if _date_matches(at["date"], day):
            base = _time_on_day(at["time"], day, sun)
            if base is not None:
                inst = base + off
                if lo < inst <= hi:
                    out.append(inst)
        day += dt.timedelta(days=1)
    return sorted(out)


def period_instants(spec: dict, startup: dt.datetime, lo: dt.datetime, hi: dt.datetime, sun,
                    anchor: list | None = None) -> list[dt.datetime]:
    """Local *labels* start + k*iv in (lo, hi] (naive arithmetic; absolute spacing is handled by the caller)."""
    iv = dt.timedelta(seconds=spec["iv"])
    start_spec = spec["start"]
    end_spec = spec.get("end")
    out = []

    def resolve(spec_dt, day):
        if spec_dt["date"]["k"] == "now":
            return startup + dt.timedelta(seconds=spec_dt.get("off", 0))
        base = _time_on_day(spec_dt["time"], day, sun)
        return None if base is None else base + dt.timedelta(seconds=spec_dt.get("off", 0))

    fixed = start_spec["date"]["k"] in ("now", "full")
    if fixed:
        if start_spec["date"]["k"] == "full":
            day = dt.date(start_spec["date"]["y"], start_spec["date"]["m"], start_spec["date"]["d"])
        else:
            day = startup.date()
        start = resolve(start_spec, day)
        end = None
        if end_spec is not None:
            if end_spec["date"]["k"] == "full":
                eday = dt.date(end_spec["date"]["y"], end_spec["date"]["m"], end_spec["date"]["d"])
            else:
                eday = start.date()
            end = resolve(end_spec, eday)
        k = 0
        if lo > start:
            k = int((lo - start) / iv)
        inst = start + k * iv
        while inst <= hi:
            if inst > lo or (inst == lo == startup):
                if end is None or inst <= end:
                    out.append(inst)
            if end is not None and inst > end:
                break
            k += 1
            inst = start + k * iv
        if anchor is not None:
            anchor.append(start)
        return out
    # time-only start: re-anchored every day
    day = lo.date() - dt.timedelta(days=1)
    while day <= hi.date():
        start = resolve(start_spec, day)
        nxt = resolve(start_spec, day + dt.timedelta(days=1))
        if end_spec is not None:
            end = resolve(end_spec, day)
            if end < start:
                end += dt.timedelta(days=1)  # wraps midnight
        else:
            end = nxt - dt.timedelta(microseconds=1)
        inst = start
        while inst <= end:
            if lo < inst <= hi:
                out.append(inst)
            inst += iv
        day += dt.timedelta(days=1)
    return sorted(set(out))


# ------------------------------------------------------------------ crontab
def _cron_field(text: str, lo: int, hi: int) -> tuple[set[int], bool]:
    """Parse one crontab field (lists, ranges, steps). Returns (values, restricted)."""
    vals: set[int] = set()
    restricted = text != "*"
    for part in text.split(","):
        step = 1
        if "/" in part:
            part, step_s = part.split("/")
            step = int(step_s)
        if part == "*":
            a, b = lo, hi
        elif "-" in part:
            a_s, b_s = part.split("-")
            a, b = int(a_s), int(b_s)
        else:
            a = int(part)
            b = hi if step > 1 else a
        vals.update(range(a, b + 1, step))
    return vals, restricted


def cron_match(expr: str, local: dt.datetime) -> bool:
    """Does the (minute-aligned) local wall time match the 5-field crontab expression?"""
    fmin, fhour, fdom, fmon, fdow = expr.split()
    mins, _ = _cron_field(fmin, 0, 59)
    hours, _ = _cron_field(fhour, 0, 23)
    doms, dom_r = _cron_field(fdom, 1, 31)
    mons, _ = _cron_field(fmon, 1, 12)
    dows, dow_r = _cron_field(fdow, 0, 7)
    if 7 in dows:
        dows.add(0)
    if local.minute not in mins or local.hour not in hours or local.month not in mons:
        return False
    dom_ok = local.day in doms
    dow_ok = (local.isoweekday() % 7) in dows
    if dom_r and dow_r:
        return dom_ok or dow_ok
    return dom_ok and dow_ok


def cron_instants(expr: str, lo: dt.datetime, hi: dt.datetime) -> list[dt.datetime]:
    out = []
    cur = lo.replace(second=0, microsecond=0) + dt.timedelta(minutes=1)
    if lo.second == 0 and lo.microsecond == 0:
        cur = lo + dt.timedelta(minutes=1)
    while cur <= hi:
        if cron_match(expr, cur):
            out.append(cur)
        cur += dt.timedelta(minutes=1)
    return out


# ------------------------------------------------------------------ windows (@time_active)
def range_contains(spec: dict, now: dt.datetime, startup: dt.datetime, sun) -> bool | None:
    """Is ``now`` inside range(start, end)?  Both end points included; end before start wraps midnight.
    Returns None when the documentation does not settle the case (don't-care)."""
    s_spec, e_spec = spec["start"], spec["end"]

    def resolve(spec_dt, ref_day):
        if spec_dt["date"]["k"] == "now":
            return startup + dt.timedelta(seconds=spec_dt.get("off", 0))
        if spec_dt["date"]["k"] == "full":
            day = dt.date(spec_dt["date"]["y"], spec_dt["date"]["m"], spec_dt["date"]["d"])
        else:
            day = ref_day
        base = _time_on_day(spec_dt["time"], day, sun)
        return None if base is None else base + dt.timedelta(seconds=spec_dt.get("off", 0))

    kinds = (s_spec["date"]["k"], e_spec["date"]["k"])
    if kinds == ("now", "now") or kinds == ("full", "full"):
        start, end = resolve(s_spec, now.date()), resolve(e_spec, now.date())
        return start <= now <= end
    if kinds == ("none", "none"):
        start, end = resolve(s_spec, now.date()), resolve(e_spec, now.date())
        if start is None or end is None:
            return None
        if start <= end:
            return start <= now <= end
        return now >= start or now <= end  # wraps midnight
    if kinds == ("dow", "dow") and s_spec["date"]["dow"] == e_spec["date"]["dow"]:
        if now.isoweekday() % 7 != s_spec["date"]["dow"]:
            # on another weekday: outside (a same-weekday window cannot wrap into another day)
            start, end = resolve(s_spec, now.date()), resolve(e_spec, now.date())
            return False if start <= end else None
        start, end = resolve(s_spec, now.date()), resolve(e_spec, now.date())
        if start <= end:
            return start <= now <= end
        return None
    return None
