"""Shared expression grammar (DESIGN.md appendix B).

An expression is kept as a JSON tree.  ``to_src`` prints it as pyscript source,
``evaluate`` interprets it on model values with the *documented* rules:

* the changed variable and its ``.old`` come from the event, other variables hold
  their value as of that event, every other ``.old`` is None;
* undefined variables / attributes read as None;
* an exception (``int(None)``, ``int('x')``) means "logged, treated as false".

Model values: an entity value is ``None`` (does not exist) or
``(state_str, attrs_dict)``.
"""

from __future__ import annotations

import random
from typing import Any


class EvalError(Exception):
    """The reference evaluation raised (the real one must log and yield false)."""


# ------------------------------------------------------------------ printing
def ref_src(ref: list) -> str:
    kind = ref[0]
    if kind == "v":
        return ref[1]
    if kind == "old":
        return f"{ref[1]}.old"
    if kind == "attr":
        return f"{ref[1]}.{ref[2]}"
    if kind == "oldattr":
        return f"{ref[1]}.old.{ref[2]}"
    if kind == "key":  # event payload key
        return ref[1]
    raise ValueError(ref)


def to_src(node: list) -> str:
    kind = node[0]
    if kind == "cmp":
        return f"{ref_src(node[1])} {node[2]} {node[3]!r}"
    if kind == "int":
        return f"int({ref_src(node[1])}) {node[2]} {node[3]}"
    if kind == "in":
        return f"{ref_src(node[1])} in {list(node[2])!r}"
    if kind == "isnone":
        return f"{ref_src(node[1])} is None"
    if kind == "and":
        return f"({to_src(node[1])} and {to_src(node[2])})"
    if kind == "or":
        return f"({to_src(node[1])} or {to_src(node[2])})"
    if kind == "not":
        return f"(not {to_src(node[1])})"
    if kind == "const":
        return repr(node[1])
    raise ValueError(node)


def refs(node: list, out: list | None = None) -> list[list]:
    """All refs mentioned by the expression, in source order."""
    if out is None:
        out = []
    kind = node[0]
    if kind in ("cmp", "int", "in", "isnone"):
        out.append(node[1])
    elif kind in ("and", "or"):
        refs(node[1], out)
        refs(node[2], out)
    elif kind == "not":
        refs(node[1], out)
    return out


def names(node: list) -> set[str]:
    """The dotted names pyscript extracts from the expression (get_names)."""
    return {ref_src(r) for r in refs(node)}


# ------------------------------------------------------------------ evaluation
def _lookup(ref: list, env) -> Any:
    """env(kind, entity) -> model value (None | (state, attrs)); kind in {'v','old'}."""
    kind = ref[0]
    if kind == "key":
        return env("key", ref[1])
    if kind in ("v", "old"):
        val = env(kind, ref[1])
        return None if val is None else val[0]
    if kind in ("attr", "oldattr"):
        val = env("v" if kind == "attr" else "old", ref[1])
        if val is None:
            return None
        return val[1].get(ref[2])
    raise ValueError(ref)


_REL = {
    "==": lambda a, b: a == b,
    "!=": lambda a, b: a != b,
    "<": lambda a, b: a < b,
    "<=": lambda a, b: a <= b,
    ">": lambda a, b: a > b,
    ">=": lambda a, b: a >= b,
}


def evaluate(node: list, env, look=None) -> Any:
    """Return the Python value of the expression; raises EvalError if evaluation raises.

    ``env(kind, entity)`` supplies model values; ``look(ref)`` (optional) replaces the whole
    reference lookup (used by explanatory alternative semantics) and may raise EvalError.
    """
    kind = node[0]
    if look is None:
        def look(ref):
            return _lookup(ref, env)
    if kind == "cmp":
        return _REL[node[2]](look(node[1]), node[3])
    if kind == "int":
        val = look(node[1])
        try:
            ival = int(val)
        except (TypeError, ValueError) as exc:
            raise EvalError(f"{type(exc).__name__}") from exc
        return _REL[node[2]](ival, node[3])
    if kind == "in":
        return look(node[1]) in list(node[2])
    if kind == "isnone":
        return look(node[1]) is None
    if kind == "and":
        left = evaluate(node[1], env, look)
        return evaluate(node[2], env, look) if left else left
    if kind == "or":
        left = evaluate(node[1], env, look)
        return left if left else evaluate(node[2], env, look)
    if kind == "not":
        return not evaluate(node[1], env, look)
    if kind == "const":
        return node[1]
    raise ValueError(node)


def truthy(node: list, env, look=None) -> tuple[bool, bool]:
    """(truth, raised) with 'exception means false'."""
    try:
        return bool(evaluate(node, env, look)), False
    except EvalError:
        return False, True


# ------------------------------------------------------------------ generation
STATE_VALUES = ["0", "1", "2", "x"]
ATTR_VALUES = [0, 1, 2]


def gen_ref(rng: random.Random, entities: list[str], attrs: list[str], allow_old: bool = True) -> list:
    ent = rng.choice(entities)
    roll = rng.random()
    if attrs and roll < 0.25:
        return ["attr", ent, rng.choice(attrs)]
    if attrs and allow_old and roll < 0.32:
        return ["oldattr", ent, rng.choice(attrs)]
    if allow_old and roll < 0.5:
        return ["old", ent]
    return ["v", ent]


def gen_atom(rng: random.Random, entities: list[str], attrs: list[str], allow_old: bool = True,
             allow_raise: bool = True) -> list:
    ref = gen_ref(rng, entities, attrs, allow_old)
    if ref[0] in ("attr", "oldattr"):
        roll = rng.random()
        if roll < 0.2:
            return ["isnone", ref]
        return ["cmp", ref, rng.choice(["==", "!="]), rng.choice(ATTR_VALUES)]
    roll = rng.random()
    if allow_raise and roll < 0.2:
        return ["int", ref, rng.choice(["<", "<=", ">", ">=", "=="]), rng.choice([0, 1, 2])]
    if roll < 0.3:
        return ["in", ref, sorted(rng.sample(STATE_VALUES, rng.randint(1, 2)))]
    return ["cmp", ref, rng.choice(["==", "==", "!="]), rng.choice(STATE_VALUES)]


def gen_expr(rng: random.Random, entities: list[str], attrs: list[str], depth: int = 2,
             allow_old: bool = True, allow_raise: bool = True) -> list:
    if depth <= 0 or rng.random() < 0.45:
        return gen_atom(rng, entities, attrs, allow_old, allow_raise)
    roll = rng.random()
    if roll < 0.4:
        return ["and", gen_expr(rng, entities, attrs, depth - 1, allow_old, allow_raise),
                gen_expr(rng, entities, attrs, depth - 1, allow_old, allow_raise)]
    if roll < 0.8:
        return ["or", gen_expr(rng, entities, attrs, depth - 1, allow_old, allow_raise),
                gen_expr(rng, entities, attrs, depth - 1, allow_old, allow_raise)]
    return ["not", gen_expr(rng, entities, attrs, depth - 1, allow_old, allow_raise)]
