"""The simulated world: real Home Assistant core + real pyscript on a SimLoop.

Real: everything under custom_components/pyscript, HA core objects (bus, state
machine, service registry, config entries, config flow, webhook registry).
Stubs: event loop/clock/executor (sim.loop), watchdog, MQTT broker, HTTP transport
for webhooks, YAML loader.  See DESIGN.md 2.3.
"""

from __future__ import annotations

import asyncio
import contextlib
import datetime as dt
import gc
import hashlib
import json
import logging
import os
import re
import shutil
import sys
import time as _real_time
import types
from typing import Any
from unittest.mock import patch
import zoneinfo

from . import REPO  # noqa: F401  (puts the repo on sys.path)
from .loop import EnvStream, SimLoop, new_loop

SHM_ROOT = "/dev/shm" if os.path.isdir("/dev/shm") else None

DEFAULT_CFG = {
    "legacy": False,
    "tz": "US/Pacific",
    "epoch_utc": "2024-05-14T17:00:00.000000",
    "drift": 0.0,
    "cost_us": 50,
    "exec_latency_ms": [0.0, 0.0],
    "timer_late_ms": 0.0,
    "apps": None,
    "allow_all_imports": True,
    "hass_is_global": False,
    "env_seed": 0,
    "extra_conf": {},
    "initial_states": None,
    "set_order_salt": 0,
    "fire_started": True,
}


class HarnessError(RuntimeError):
    """The harness itself failed (never reported as a property violation)."""


# --------------------------------------------------------------------------- clock
class SimClock:
    """Wall clock derived from the loop's virtual monotonic clock."""

    def __init__(self, loop: SimLoop, epoch_utc: dt.datetime, tz: zoneinfo.ZoneInfo, drift: float) -> None:
        self.loop = loop
        self.vt0 = loop.vt
        self.epoch = epoch_utc
        self.tz = tz
        self.drift = drift
        self.step = 0.0

    def elapsed(self) -> float:
        return (self.loop.vt - self.vt0) * (1.0 + self.drift) + self.step

    def utc(self) -> dt.datetime:
        return self.epoch + dt.timedelta(seconds=self.elapsed())

    def utc_ts(self) -> float:
        return self.utc().timestamp()

    def local_naive(self) -> dt.datetime:
        return self.utc().astimezone(self.tz).replace(tzinfo=None)

    def local_at(self, vt: float) -> dt.datetime:
        u = self.epoch + dt.timedelta(seconds=(vt - self.vt0) * (1.0 + self.drift) + self.step)
        return u.astimezone(self.tz).replace(tzinfo=None)

    def vt_of_utc(self, when: dt.datetime) -> float:
        """Virtual time at which the wall clock reads ``when`` (aware datetime)."""
        return self.vt0 + ((when - self.epoch).total_seconds() - self.step) / (1.0 + self.drift)


class _TimeShim(types.ModuleType):
    """Stand-in for the ``time`` module inside modules under simulation."""

    def __init__(self, world: "World") -> None:
        super().__init__("time")
        self._world = world

    def monotonic(self) -> float:
        return self._world.loop.vt

    def time(self) -> float:
        return self._world.clock.utc_ts()

    def __getattr__(self, name):
        return getattr(_real_time, name)


# --------------------------------------------------------------------------- reset
def reset_pyscript_globals() -> None:
    """Hard reset of every class-level registry of pyscript (DESIGN 2.4)."""
    from custom_components.pyscript.decorator import DecoratorRegistry
    from custom_components.pyscript.event import Event
    from custom_components.pyscript.function import Function
    from custom_components.pyscript.global_ctx import GlobalContextMgr
    from custom_components.pyscript.mqtt import Mqtt
    from custom_components.pyscript.state import State
    from custom_components.pyscript.webhook import Webhook

    State.notify.clear()
    State.notify_var_last.clear()
    State.persisted_vars.clear()
    State.service2args = {}
    State.pyscript_config.clear()
    State.hass = None
    for cls in (Event, Mqtt, Webhook):
        cls.notify.clear()
        cls.notify_remove.clear()
        cls.hass = None
    Function.unique_task2name.clear()
    Function.unique_name2task.clear()
    Function.task2context.clear()
    Function.our_tasks.clear()
    Function.task2cb.clear()
    Function.functions.clear()
    Function.ast_functions.clear()
    Function.task_reaper = None
    Function.task_reaper_q = None
    Function.task_waiter = None
    Function.task_waiter_q = None
    Function.service_cnt.clear()
    Function.service2global_ctx.clear()
    Function.hass = None
    GlobalContextMgr.contexts.clear()
    GlobalContextMgr.name_seq = 0
    DecoratorRegistry._decorators = {}


def pyscript_leftovers() -> dict[str, Any]:
    """What pyscript's registries still hold (used as C09 evidence after unload)."""
    from custom_components.pyscript.event import Event
    from custom_components.pyscript.function import Function
    from custom_components.pyscript.global_ctx import GlobalContextMgr
    from custom_components.pyscript.mqtt import Mqtt
    from custom_components.pyscript.state import State
    from custom_components.pyscript.webhook import Webhook

    return {
        "state_notify": {k: len(v) for k, v in sorted(State.notify.items())},
        "state_notify_last": sorted(State.notify_var_last),
        "event_notify": {k: len(v) for k, v in sorted(Event.notify.items())},
        "mqtt_notify": {k: len(v) for k, v in sorted(Mqtt.notify.items())},
        "webhook_notify": {k: len(v) for k, v in sorted(Webhook.notify.items())},
        "our_tasks": len(Function.our_tasks),
        "task2cb": len(Function.task2cb),
        "task2context": len(Function.task2context),
        "unique_name2task": sorted(Function.unique_name2task),
        "unique_task2name": len(Function.unique_task2name),
        "service_cnt": {k: v for k, v in sorted(Function.service_cnt.items()) if v},
        "service2global_ctx": dict(sorted(Function.service2global_ctx.items())),
        "contexts": sorted(GlobalContextMgr.contexts),
    }


# --------------------------------------------------------------------------- log capture
class _LogCapture(logging.Handler):
    def __init__(self, world: "World") -> None:
        super().__init__(level=logging.INFO)
        self.world = world

    def emit(self, record: logging.LogRecord) -> None:
        try:
            msg = record.getMessage()
        except Exception:  # pylint: disable=broad-except
            msg = str(record.msg)
        exc_text = None
        if record.exc_info and record.exc_info[1] is not None:
            exc_text = f"{type(record.exc_info[1]).__name__}: {record.exc_info[1]}"
        self.world.logs.append(
            {
                "vt": self.world.loop.vt if self.world.loop else 0.0,
                "logger": record.name,
                "level": record.levelname,
                "msg": msg,
                "exc": exc_text,
            }
        )
        if record.levelno >= logging.WARNING:
            first = msg.replace(self.world.dir or "\0", "<cfg>").split("\n", 1)[0]
            self.world.trace.append(["log", self.world.vts(), record.name, record.levelname, first[:200]])


# --------------------------------------------------------------------------- fake MQTT broker
class FakeBroker:
    """In-process MQTT broker behind ``mqtt.async_subscribe``."""

    def __init__(self, world: "World") -> None:
        self.world = world
        self.subs: list[dict] = []
        self.seq = 0

    async def async_subscribe(self, hass, topic, msg_callback, qos=0, encoding="utf-8", job_type=None):
        self.seq += 1
        entry = {"id": self.seq, "topic": topic, "cb": msg_callback, "encoding": encoding}
        self.subs.append(entry)

        def unsub():
            if entry in self.subs:
                self.subs.remove(entry)

        return unsub

    @staticmethod
    def _match(sub: str, topic: str) -> bool:
        sp, tp = sub.split("/"), topic.split("/")
        for i, part in enumerate(sp):
            if part == "#":
                return True
            if i >= len(tp):
                return False
            if part != "+" and part != tp[i]:
                return False
        return len(sp) == len(tp)

    def publish(self, topic: str, payload: str, qos: int = 0, retain: bool = False) -> int:
        from homeassistant.components.mqtt.models import ReceiveMessage
        from homeassistant.core import HassJob

        n = 0
        for entry in list(self.subs):
            if self._match(entry["topic"], topic):
                msg = ReceiveMessage(topic, payload, qos, retain, entry["topic"], self.world.loop.vt)
                self.world.hass.async_run_hass_job(HassJob(entry["cb"]), msg)
                n += 1
        return n


# --------------------------------------------------------------------------- the world
class World:
    """One simulated Home Assistant + pyscript instance."""

    def __init__(self, cfg: dict | None = None, files: dict[str, str] | None = None) -> None:
        self.cfg = dict(DEFAULT_CFG)
        if cfg:
            self.cfg.update(cfg)
        self.files = dict(files or {})
        self.loop: SimLoop | None = None
        self.hass = None
        self.clock: SimClock | None = None
        self.trace: list = []
        self.logs: list[dict] = []
        self.marks: list[dict] = []
        self.tasks: list[asyncio.Task] = []
        self.task_label: dict[int, int] = {}
        self.ctx_ord: dict[str, int] = {}
        self.broker = FakeBroker(self)
        self.dir = None
        self.pyscript_dir = None
        self.yaml_apps = self.cfg["apps"]
        self.bus_events: list = []
        self.env_enabled = False
        self.vt_setup_done = None
        self.ha_exceptions: list = []
        self.entry = None
        self._stack = None
        self._seq = 0
        self.faults: dict[str, int] = {}
        self.reach: dict[str, int] = {}
        self.file_mtime_seq = 0
        self.mark_hook = None
        self.pre_setup = None

    # ---------------------------------------------------------------- helpers
    def vts(self) -> float:
        """Virtual time rounded for traces (relative to set-up)."""
        return round(self.loop.vt - self.clock.vt0, 6) if self.loop and self.clock else 0.0

    def fault(self, kind: str, n: int = 1) -> None:
        self.faults[kind] = self.faults.get(kind, 0) + n

    def probe(self, name: str, n: int = 1) -> None:
        self.reach[name] = self.reach.get(name, 0) + n

    def ctx_id(self, context) -> int | None:
        if context is None:
            return None
        cid = context.id if hasattr(context, "id") else str(context)
        if cid not in self.ctx_ord:
            self.ctx_ord[cid] = len(self.ctx_ord) + 1
        return self.ctx_ord[cid]

    def label_of(self, task) -> int | None:
        return self.task_label.get(id(task)) if task is not None else None

    def norm(self, val: Any) -> Any:
        """Normalise a value for traces/markers: no addresses, ULIDs, raw datetimes."""
        from homeassistant.core import Context, State as HAState

        try:
            from custom_components.pyscript.state import StateVal
        except Exception:  # pylint: disable=broad-except
            StateVal = ()  # type: ignore
        if isinstance(val, StateVal):
            attrs = {
                k: self.norm(v)
                for k, v in sorted(val.__dict__.items())
                if k not in ("entity_id", "last_changed", "last_updated", "last_reported")
            }
            return ["SV", str(val), attrs]
        if val is None or isinstance(val, (bool, int, float, str)):
            return val
        if isinstance(val, Context):
            return ["ctx", self.ctx_id(val)]
        if isinstance(val, HAState):
            return ["state", val.entity_id, val.state, self.norm(dict(val.attributes))]
        if isinstance(val, dt.datetime):
            return ["dt", val.isoformat()]
        if isinstance(val, asyncio.Task):
            return ["task", self.label_of(val)]
        if isinstance(val, dict):
            return {str(k): self.norm(v) for k, v in sorted(val.items(), key=lambda kv: str(kv[0]))}
        if isinstance(val, (list, tuple)):
            return [self.norm(v) for v in val]
        if isinstance(val, (set, frozenset)):
            return ["set", sorted((self.norm(v) for v in val), key=repr)]
        if isinstance(val, bytes):
            return ["bytes", val.hex()]
        if isinstance(val, BaseException):
            return ["exc", type(val).__name__, str(val)]
        return ["obj", type(val).__name__]

    def digest(self) -> str:
        return hashlib.sha256(json.dumps(self.trace, sort_keys=True, default=repr).encode()).hexdigest()[:16]

    # ---------------------------------------------------------------- file system
    def _abspath(self, rel: str) -> str:
        return os.path.join(self.dir, rel)

    def write_file(self, rel: str, text: str, mtime: float | None = None) -> None:
        path = self._abspath(rel)
        os.makedirs(os.path.dirname(path), exist_ok=True)
        with open(path, "w", encoding="utf-8") as fdesc:
            fdesc.write(text)
        self.touch_file(rel, mtime)

    def touch_file(self, rel: str, mtime: float | None = None) -> None:
        if mtime is None:
            self.file_mtime_seq += 1
            mtime = 1_700_000_000.0 + self.file_mtime_seq
        os.utime(self._abspath(rel), (mtime, mtime))

    def delete_file(self, rel: str) -> None:
        with contextlib.suppress(FileNotFoundError):
            os.remove(self._abspath(rel))

    def rename(self, rel_old: str, rel_new: str) -> None:
        os.makedirs(os.path.dirname(self._abspath(rel_new)), exist_ok=True)
        os.rename(self._abspath(rel_old), self._abspath(rel_new))

    # ---------------------------------------------------------------- marker seam
    def _mark(self, *args, **kwargs) -> None:
        """Native function exposed to scripts as ``sim.mark(...)``."""
        task = asyncio.current_task()
        rec = {
            "vt": self.loop.vt,
            "t": self.vts(),
            "task": self.label_of(task),
            "args": [self.norm(a) for a in args],
            "kw": {k: self.norm(v) for k, v in sorted(kwargs.items())},
            "raw_kw": kwargs,
            "raw_args": args,
            "task_obj": task,
            "iter": self.loop.iterations,
            "wall": self.clock.local_naive(),
        }
        self.marks.append(rec)
        self.trace.append(["mark", rec["t"], rec["task"], rec["args"], rec["kw"]])
        if self.mark_hook is not None:
            self.mark_hook(rec)

    def _native(self, name: str):
        """Return a harness-side native object to scripts (``sim.get('x')``)."""
        return self.natives.get(name)

    natives: dict[str, Any] = {}

    # ---------------------------------------------------------------- life cycle
    def run(self, driver) -> Any:
        """Build the world, run ``await driver(world)``, tear everything down."""
        gc_was = gc.isenabled()
        gc.disable()
        self.loop = new_loop()
        base = SHM_ROOT or "/var/tmp"
        self.dir = os.path.join(base, f"pyscript-sim-{os.getpid()}")
        shutil.rmtree(self.dir, ignore_errors=True)
        os.makedirs(os.path.join(self.dir, "pyscript"))
        self.pyscript_dir = os.path.join(self.dir, "pyscript")
        self.natives = {}
        handler = _LogCapture(self)
        root_logger = logging.getLogger("custom_components.pyscript")
        old_level = root_logger.level
        old_prop = root_logger.propagate
        root_logger.addHandler(handler)
        root_logger.setLevel(logging.INFO)
        root_logger.propagate = False
        ha_logger = logging.getLogger("homeassistant")
        ha_handler = _HAErrorCapture(self)
        ha_logger.addHandler(ha_handler)
        ha_prop = ha_logger.propagate
        ha_logger.propagate = False
        try:
            return self.loop.run_until_complete(self._main(driver))
        finally:
            root_logger.removeHandler(handler)
            root_logger.setLevel(old_level)
            root_logger.propagate = old_prop
            ha_logger.removeHandler(ha_handler)
            ha_logger.propagate = ha_prop
            self._close_loop()
            reset_pyscript_globals()
            shutil.rmtree(self.dir, ignore_errors=True)
            gc.collect()
            if gc_was:
                gc.enable()

    def _close_loop(self) -> None:
        loop = self.loop
        try:
            pending = [t for t in asyncio.all_tasks(loop) if not t.done()]
            for task in pending:
                task.cancel()
            if pending:
                loop.cost = 0.0
                loop.on_quiescent = None
                with contextlib.suppress(Exception):
                    loop.run_until_complete(asyncio.gather(*pending, return_exceptions=True))
        finally:
            with contextlib.suppress(Exception):
                loop.close()
            asyncio.set_event_loop(None)

    def _task_factory(self, loop, coro, **kwargs):
        task = asyncio.Task(coro, loop=loop, **kwargs)
        self._seq += 1
        self.tasks.append(task)
        self.task_label[id(task)] = len(self.tasks)
        task.set_name(f"sim-{len(self.tasks)}")
        return task

    async def _main(self, driver) -> Any:
        from pytest_homeassistant_custom_component.common import async_test_home_assistant

        from homeassistant import loader
        from homeassistant.setup import async_setup_component
        from homeassistant.util import dt as dt_util

        cfg = self.cfg
        loop = self.loop
        tz = zoneinfo.ZoneInfo(cfg["tz"])
        epoch = dt.datetime.fromisoformat(cfg["epoch_utc"]).replace(tzinfo=dt.timezone.utc)
        self.clock = SimClock(loop, epoch, tz, cfg["drift"])
        shim = _TimeShim(self)
        for rel, text in self.files.items():
            self.write_file(rel, text)

        async def fake_watchdog_start(hass, pyscript_folder, reload_scripts_handler):
            self.reload_handler = reload_scripts_handler

        def fake_yaml(*_a, **_k):
            return self.yaml_config()

        def handle_exc(_loop, context):
            self.ha_exceptions.append(
                {"vt": self.vts(), "message": context.get("message"), "exc": repr(context.get("exception"))}
            )
            self.trace.append(["loop_exc", self.vts(), str(context.get("message"))[:120]])

        loop.set_exception_handler(handle_exc)

        with contextlib.ExitStack() as stack:
            self._stack = stack
            async with async_test_home_assistant(loop, config_dir=self.dir) as hass:
                self.hass = hass
                loop.set_exception_handler(handle_exc)
                loop.set_task_factory(self._task_factory)
                hass.data.pop(loader.DATA_CUSTOM_COMPONENTS, None)
                await hass.config.async_set_time_zone(cfg["tz"])
                import custom_components.pyscript as pys  # noqa: F401
                import custom_components.pyscript.decorators.timing as timing_mod
                import custom_components.pyscript.trigger as trigger_mod
                from custom_components.pyscript.function import Function
                import homeassistant.components.mqtt as mqtt_mod
                import homeassistant.core as ha_core

                stack.enter_context(patch("custom_components.pyscript.watchdog_start", fake_watchdog_start))
                stack.enter_context(patch("homeassistant.config.load_yaml_config_file", fake_yaml))
                stack.enter_context(patch.object(trigger_mod, "dt_now", self.clock.local_naive))
                stack.enter_context(patch.object(trigger_mod, "time", shim))
                stack.enter_context(patch.object(timing_mod, "time", shim))
                stack.enter_context(patch.object(pys, "time", shim))
                stack.enter_context(patch.object(ha_core, "time", shim))
                stack.enter_context(patch.object(ha_core, "monotonic", shim.monotonic))
                stack.enter_context(patch.object(dt_util, "utcnow", self.clock.utc))
                stack.enter_context(patch.object(mqtt_mod, "async_subscribe", self.broker.async_subscribe))
                for hook in self._hash_seams():
                    stack.enter_context(hook)
                slow_ms = float(cfg.get("svc_params_delay_ms") or 0.0)
                if slow_ms > 0:
                    # State.get_service_params() awaits Home Assistant's service-description loader, which suspends
                    # (executor job) whenever some integration's descriptions are not cached yet. With the bare core
                    # of the simulation everything is cached, so the suspension is injected here: legal, rare.
                    from custom_components.pyscript.state import State

                    orig_gsp = State.get_service_params

                    async def slow_get_service_params():
                        self.fault("slow_service_description_load")
                        await asyncio.sleep(slow_ms / 1000.0)
                        return await orig_gsp()

                    stack.enter_context(patch.object(State, "get_service_params", staticmethod(slow_get_service_params)))
                for hook in self.extra_patches():
                    stack.enter_context(hook)

                Function.functions["sim.mark"] = self._mark
                Function.functions["sim.get"] = self._native

                self._bus_unsub = hass.bus.async_listen("*", self._on_bus_event)  # MATCH_ALL
                for ent, (sval, attrs) in sorted((self.cfg.get("initial_states") or {}).items()):
                    hass.states.async_set(ent, sval, attrs or {})
                if self.pre_setup is not None:
                    res = self.pre_setup(hass)
                    if asyncio.iscoroutine(res):
                        await res
                self.census_pre_setup = self.census()
                conf = {"pyscript": self.pyscript_conf()}
                ok = await async_setup_component(hass, "pyscript", conf)
                if not ok:
                    raise HarnessError("async_setup_component(pyscript) failed")
                await hass.async_block_till_done()
                entries = hass.config_entries.async_entries("pyscript")
                self.entry = entries[0] if entries else None
                # --- end of the zero-cost set-up phase
                self.enable_env()
                self.vt_setup_done = loop.vt
                if self.cfg.get("fire_started", True):
                    from homeassistant.const import EVENT_HOMEASSISTANT_STARTED

                    hass.bus.async_fire(EVENT_HOMEASSISTANT_STARTED)
                result = None
                try:
                    result = await driver(self)
                finally:
                    loop.on_quiescent = None
                    self.disable_env()
                    with contextlib.suppress(Exception):
                        await hass.async_stop(force=True)
                return result

    def extra_patches(self) -> list:
        """Additional context managers (property specific seams)."""
        return []

    def _hash_seams(self) -> list:
        """Address-based hashes decide set iteration order (Event.notify, GlobalContext.triggers/dms):
        replace them by a per-run sequence number, permuted by ``set_order_salt`` (an explored choice)."""
        from custom_components.pyscript.decorator_abc import DecoratorManager
        from custom_components.pyscript.eval import EvalFunc
        from custom_components.pyscript.jupyter_kernel import ZmqSocket

        salt = int(self.cfg.get("set_order_salt", 0))
        counter = [0]

        def seq_hash(obj):
            val = obj.__dict__.get("_sim_hash")
            if val is None:
                counter[0] += 1
                val = (counter[0] * 7919 + salt * 104729) % 1000003 if salt else counter[0]
                obj.__dict__["_sim_hash"] = val
            return val

        return [patch.object(cls, "__hash__", seq_hash)
                for cls in (asyncio.Queue, EvalFunc, DecoratorManager, ZmqSocket)]

    def enable_env(self) -> None:
        cfg = self.cfg
        loop = self.loop
        loop.cost = cfg["cost_us"] * 1e-6
        lo, hi = cfg["exec_latency_ms"]
        loop.exec_latency = (lo * 1e-3, hi * 1e-3)
        loop.timer_late = cfg["timer_late_ms"] * 1e-3
        loop.exec_stream = EnvStream(cfg["env_seed"], "exec")
        loop.late_stream = EnvStream(cfg["env_seed"], "late")
        self.env_enabled = True

    def disable_env(self) -> None:
        loop = self.loop
        loop.exec_latency = (0.0, 0.0)
        loop.timer_late = 0.0
        self.env_enabled = False

    def pyscript_conf(self) -> dict:
        conf = {
            "allow_all_imports": self.cfg["allow_all_imports"],
            "hass_is_global": self.cfg["hass_is_global"],
            "legacy_decorators": self.cfg["legacy"],
        }
        if self.yaml_apps is not None:
            conf["apps"] = self.yaml_apps
        conf.update(self.cfg.get("extra_conf") or {})
        return conf

    def yaml_config(self) -> dict:
        return {"pyscript": self.pyscript_conf()}

    # ---------------------------------------------------------------- bus recording
    def _on_bus_event(self, event) -> None:
        etype = str(event.event_type)
        if etype in ("service_registered", "service_removed", "component_loaded", "core_config_updated"):
            return
        rec = {
            "vt": self.loop.vt,
            "iter": self.loop.iterations,
            "t": self.vts(),
            "type": etype,
            "data": event.data,
            "ctx": event.context,
            "ctx_n": self.ctx_id(event.context),
            "parent": event.context.parent_id,
        }
        self.bus_events.append(rec)
        if etype == "state_changed":
            new = event.data.get("new_state")
            self.trace.append(
                [
                    "ev",
                    rec["t"],
                    etype,
                    event.data.get("entity_id"),
                    None if new is None else new.state,
                    None if new is None else self.norm(dict(new.attributes)),
                    rec["ctx_n"],
                ]
            )
        elif etype == "pyscript_running":
            self.trace.append(["ev", rec["t"], etype, event.data.get("name"), rec["ctx_n"]])
        elif etype not in ("call_service",):
            self.trace.append(["ev", rec["t"], etype, self.norm(dict(event.data)), rec["ctx_n"]])

    # ---------------------------------------------------------------- driver API
    async def sleep(self, seconds: float) -> None:
        await asyncio.sleep(seconds)

    async def passes(self, k: int = 1) -> None:
        for _ in range(k):
            await asyncio.sleep(0)

    def quiescent(self) -> bool:
        loop = self.loop
        if loop._ready:
            return False
        sched = loop._scheduled
        for handle in sched:
            if not handle._cancelled and handle._when <= loop.vt:
                return False
        return True

    async def drain(self, max_passes: int = 20000) -> int:
        """Yield until nothing but future timers remains. Returns passes used."""
        for n in range(max_passes):
            await asyncio.sleep(0)
            if self.quiescent():
                return n + 1
        raise HarnessError("drain: system did not become quiescent")

    async def started(self) -> None:
        """Wait until the start-up work (service descriptions through the executor, trigger start) is over."""
        await self.settle(2.0)

    async def settle(self, horizon: float = 0.0) -> None:
        """Drain; optionally also let ``horizon`` virtual seconds elapse and drain again."""
        await self.drain()
        if horizon > 0.0:
            await asyncio.sleep(horizon)
            await self.drain()

    def set_state(self, entity_id: str, state: str, attrs: dict | None = None, context=None) -> None:
        self.trace.append(["op", "set", self.vts(), entity_id, state, self.norm(attrs or {})])
        self.hass.states.async_set(entity_id, state, attrs or {}, context=context)

    def remove_state(self, entity_id: str) -> bool:
        self.trace.append(["op", "remove", self.vts(), entity_id])
        return self.hass.states.async_remove(entity_id)

    def fire(self, event_type: str, data: dict | None = None, context=None) -> None:
        self.trace.append(["op", "fire", self.vts(), event_type, self.norm(data or {})])
        self.hass.bus.async_fire(event_type, data or {}, context=context)

    async def call_service(self, domain, service, data=None, blocking=True, return_response=False, context=None):
        self.trace.append(["op", "call", self.vts(), f"{domain}.{service}", self.norm(data or {}), blocking])
        return await self.hass.services.async_call(
            domain, service, data or {}, blocking=blocking, return_response=return_response, context=context
        )

    async def reload(self, global_ctx: str | None = None, blocking: bool = True):
        data = {} if global_ctx is None else {"global_ctx": global_ctx}
        return await self.call_service("pyscript", "reload", data, blocking=blocking)

    async def unload_entry(self) -> bool:
        self.trace.append(["op", "unload", self.vts()])
        return await self.hass.config_entries.async_unload(self.entry.entry_id)

    async def setup_entry(self) -> bool:
        self.trace.append(["op", "setup", self.vts()])
        return await self.hass.config_entries.async_setup(self.entry.entry_id)

    def mqtt_publish(self, topic: str, payload: str, qos: int = 0, retain: bool = False) -> int:
        self.trace.append(["op", "mqtt", self.vts(), topic, payload])
        return self.broker.publish(topic, payload, qos, retain)

    async def webhook_post(self, webhook_id: str, payload: dict, method: str = "POST", as_json: bool = True):
        from homeassistant.components import webhook
        from homeassistant.util.aiohttp import MockRequest

        self.trace.append(["op", "webhook", self.vts(), webhook_id, self.norm(payload)])
        if as_json:
            content = json.dumps(payload).encode()
            headers = {"Content-Type": "application/json"}
        else:
            from urllib.parse import urlencode

            content = urlencode(payload).encode()
            headers = {"Content-Type": "application/x-www-form-urlencoded"}
        req = MockRequest(content=content, mock_source="sim", method=method, headers=headers)
        req.remote = "127.0.0.1"
        return await webhook.async_handle_webhook(self.hass, webhook_id, req)

    def gc_now(self) -> int:
        self.fault("gc_now")
        return gc.collect()

    # ---------------------------------------------------------------- census
    def census(self) -> dict[str, Any]:
        """What is registered right now (HA side and pyscript side)."""
        hass = self.hass
        listeners = {k: v for k, v in sorted(hass.bus.async_listeners().items()) if v}
        services = {
            dom: sorted(svcs) for dom, svcs in sorted(hass.services.async_services().items()) if svcs
        }
        webhooks = sorted(hass.data.get("webhook", {}).keys()) if isinstance(hass.data.get("webhook"), dict) else []
        timers = sum(1 for h in self.loop._scheduled if not h._cancelled)
        live_tasks = sum(1 for t in self.tasks if not t.done())
        out = {
            "listeners": listeners,
            "services": services,
            "webhooks": webhooks,
            "mqtt_subs": sorted(s["topic"] for s in self.broker.subs),
            "timers": timers,
            "live_tasks": live_tasks,
        }
        out.update(pyscript_leftovers())
        return out


class _HAErrorCapture(logging.Handler):
    """Capture ERROR records of Home Assistant itself (exceptions that escaped pyscript)."""

    def __init__(self, world: World) -> None:
        super().__init__(level=logging.ERROR)
        self.world = world

    def emit(self, record: logging.LogRecord) -> None:
        try:
            msg = record.getMessage()
        except Exception:  # pylint: disable=broad-except
            msg = str(record.msg)
        self.world.ha_exceptions.append(
            {"vt": self.world.vts(), "message": f"{record.name}: {msg}"[:300], "exc": None}
        )
        # (context ids are ULIDs with a random part: not part of the digest)
        head = re.sub(r"\(c:[0-9A-Z]{26}\)", "(c:*)", msg.split("\n", 1)[0][:160])
        self.world.trace.append(["ha_err", self.world.vts(), record.name, head])
