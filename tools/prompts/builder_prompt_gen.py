import json,sys,os
os.chdir('/verif')
props={json.loads(l)['id']:json.loads(l) for l in open('properties.jsonl')}
EXTRA={
'C04':"",
'C06':"Note 1 (once(<weekday> ..) going dead for the rest of that weekday) touches an ASSUMPTION of the module (weekly repetition is don't-care because the documentation says 'once on that day of the week'); keep that assumption unless you find the documentation settles it - but do judge what IS settled: an instant later the same day must not make the successor function return None when a later denoted instant exists under every reading.",
'C07':"Note 1 (hold_off race: two occurrences of different triggers of one function in the same instant while a guard evaluation suspends, e.g. a sunrise/sunset window computed in an executor job) is a genuine interleaving situation - exactly what this technique is for; make sure the workload has same-instant occurrences of two different triggers of one function with hold_off and a suspending guard (executor latency > 0). Note 2 (attribute of the triggering entity in @state_active during a burst) likewise.",
'C08':"Notes 2 and 3 (event data carrying keys named 'context' / 'trigger_type' / 'event_type'; non-string keys) are unusual but legal payloads: the quantifier says 'arbitrary payloads'.",
'C09':"Note 1 (dec_eval_depth not restored when a user decorator raises inside try/except, after which later decorated functions of that file / Jupyter session are never activated) and note 3 (Jupyter session surviving a config-entry reload; new subsystem) are lifecycle situations; add them in general form (a definition that fails part-way - in a decorator call - and is caught by the script; a Jupyter cell executed after unload+setup of the entry).",
'C10':"",
'C11':"Note 2 ('from m import C' then rebinding C in the importer changes m's own C) is squarely inside the statement (globals of one file unmodifiable by another except through import of a MODULE - rebinding an imported NAME must not write through).",
'C12':"Notes 1-3. For note 2 (two live functions of one file declaring one name: which handler wins depends on set iteration order of GlobalContext.dms_delay_start) remember that PYTHONHASHSEED / the simulator's __hash__ seam is part of the seed - the recorded findings C09-K2 / C12-K1 are about handlers not being restored after a deletion; 'calling the service runs the most recent definition' right after load is a different clause.",
'C13':"The note about nested context names (scripts.a and scripts.a.b both loaded; task.unique('b.x') in scripts.a versus task.unique('x') in scripts.a.b share the key 'scripts.a.b.x'; name2id() lists the other context's names) is inside the statement ('names in different global contexts never interact'): add nested context names and dotted unique names.",
'C14':"Notes 1, 3, 4: a done callback that removes / adds callbacks of its own task while the callbacks run; task.add_done_callback on a task that has already finished (census: nothing may be kept for finished tasks); bound-method callbacks.",
'C15':"Notes 1 and 2: a later argument that fails to parse / raises during set-up after earlier conditions were subscribed (every exit path must release everything - set-up failures included: 'exception in a condition'); time_trigger='shutdown' among the conditions. Also a cancellation during the set-up phase itself (while Mqtt.notify_add or an executor job of the set-up is suspended).",
'C18':"Notes 3-6; note 5 ('raise e from e': the formatter recurses without bound and NOTHING appears on the script's logger) is a containment/reporting failure independent of the known traceback-format findings.",
'C19':"Notes 1-3: a result whose repr() raises or is a pyscript-defined __repr__; a cell raising a BaseException that is not an Exception; two shell connections executing concurrently (execution counter and parent headers).",
}
def info(pid,v):
    d=f'seeded/{pid}/{v}'
    m=json.load(open(d+'/meta.json')); c=json.load(open(d+'/confirmed.json')) if os.path.exists(d+'/confirmed.json') else {}
    return m,c
def prompt(pid):
    p=props[pid]
    missed=[];caught=[]
    for v in 'gh':
        m,c=info(pid,v)
        need=" ".join(m.get('needs_to_manifest','').split())[:500]
        if c.get('caught_by'): caught.append(v)
        else: missed.append(f"\n  - variant {v}{'' if c.get('confirmed') else ' (demonstration not re-confirmed here yet - judge the patch on its merits)'}: needs: {need}")
    return f"""You are a "builder" for the verification harness in /verif. FIRST read /verif/tools/BUILDER.md completely and obey it; then /verif/sim/FRAMEWORK.md; then the module /verif/sim/props/{pid.lower()}.py (your module - the only file you should need to edit; sim/world.py or sim/common.py only if a new seam is really needed, and then backwards compatible).

Property {pid}: {p['title']}
Statement: {p['statement']}
Quantifier: {p['quantifier']['text']}

The machine is shared with other builders: ALWAYS set VERIF_WORKERS=4 in the environment of every `python -m sim ...` command you run (e.g. `cd /verif && VERIF_WORKERS=4 /venv/bin/python -m sim check {pid} --tier quick`), and prefer `--runs N` with a smaller N while developing.

Independent engineers wrote changes to /repo that break this property while the 88 pinned tests still pass. They are stored under /verif/seeded/{pid}/<variant>/ (patch.diff = the change, meta.json = what it does and what it needs to manifest, test_demo.py = their demonstration).
Seeded changes the quick check does NOT report yet (your main job - extend the workload in GENERAL form, per BUILDER.md rule 2, so that this kind of situation is generated and judged): {''.join(missed) if missed else 'none - both new variants are already reported'}
Seeded changes of this round the quick check already reports (must stay reported): {', '.join(caught) or 'none'} - and all older variants a-f (re-check two or three of them at the end).

The same engineers also noted behaviours of the UNCHANGED code that look like genuine violations of this property: /verif/findings/redteam_notes/{pid}-r5.txt (read it). For each note decide: (i) inside the property's statement and quantifier and a situation your workload can generate -> add the situation (general form, reach probe); if the check then reports it on the unchanged tree, reproduce it from the replay, read the code in /repo, and work out the smallest safe repair (a patch a maintainer would accept: corrects the behaviour, does not remove it, no special-casing); put the repair as /tmp/bld/{pid}-fix-<n>.diff (git diff format relative to /repo HEAD, only files under custom_components/pyscript/), and verify IN A SCRATCH WORKTREE (BUILDER.md rule 7) that with the repair your check is clean on that class and that the pinned tests still pass there (`cd <worktree> && timeout 1700 /venv/bin/python -m pytest -q -p no:cacheprovider --timeout=900 --continue-on-collection-errors --junitxml=/tmp/bld/{pid}-junit.xml > /tmp/bld/{pid}-pytest.log 2>&1`, then compare with the "stable_pass" list of /root/.vp/BASELINE.json: all 88 must pass). Do NOT apply anything to /repo; I will. If a repair would not be small and safe, say so: it will be recorded as a known finding instead (give class + signature precise enough that a different violation of the property is still reported). (ii) outside the statement, undefined by the documentation, or not reachable by this technique -> leave it and say why in one line. Give every violation class a precise name and a small signature so that a finding can be recorded per failing situation.
{EXTRA.get(pid,'')}
Important: when a genuine defect is found the quick check on the unchanged /repo will (correctly) exit 1 until I apply the repair - that is fine; report it. Everything else must be clean: no other violation, no harness error, determinism self-test divergent=0.

Final report: as BUILDER.md asks, plus for each genuine defect: violation class + signature, replay file path (copy it to /tmp/bld/), one-paragraph reading of the code, the repair diff path, and the verification you did with it.
"""
for pid in sys.argv[1:]:
    open(f'/tmp/bld/{pid}.prompt','w').write(prompt(pid)); print(pid,'written')
