#!/bin/bash
# usage: seedcheck.sh <PROP> <variant> [extra props to run...]
# Confirms a red-team change in a scratch worktree of /repo's HEAD and runs our quick check(s) against it.
P=$1; V=$2; shift; shift
SRC=/tmp/seed-$P/$V
WT=/tmp/sc-$P$V
OUT=/tmp/seed-$P/$V/confirm
mkdir -p $OUT
git -C /repo worktree remove --force $WT 2>/dev/null; rm -rf $WT
git -C /repo worktree add -q $WT HEAD || exit 3
if ! git -C $WT apply --check $SRC/patch.diff 2>$OUT/apply.err; then
  if git -C $WT apply --3way $SRC/patch.diff 2>>$OUT/apply.err; then echo "APPLY: needed 3-way"; git -C $WT diff HEAD > $OUT/patch_rebased.diff; git -C $WT reset -q --hard HEAD; git -C $WT apply $OUT/patch_rebased.diff; else echo "APPLY: FAILED"; cat $OUT/apply.err | head -5; git -C /repo worktree remove --force $WT; exit 4; fi
else
  git -C $WT apply $SRC/patch.diff; echo "APPLY: clean"
fi
demo=$(ls $SRC/test_demo*.py 2>/dev/null | head -1)
run_demo() { (cd $WT && timeout 900 /venv/bin/python -m pytest -q -p no:cacheprovider -c $SRC/pytest.ini --rootdir $WT $demo 2>&1 | tail -3) ; }
if [ ! -f $SRC/pytest.ini ]; then run_demo() { (cd $WT && timeout 900 /venv/bin/python -m pytest -q -p no:cacheprovider $demo 2>&1 | tail -3); }; fi
echo "--- demo WITH change:"; run_demo | tail -1
git -C $WT diff > $OUT/applied.diff
git -C $WT checkout -- .
echo "--- demo WITHOUT change:"; run_demo | tail -1
git -C $WT apply $OUT/applied.diff
echo "--- baseline WITH change:"
(cd $WT && timeout 1800 /venv/bin/python -m pytest -q -p no:cacheprovider --timeout=900 --continue-on-collection-errors --junitxml=$OUT/junit.xml > $OUT/pytest.log 2>&1; /venv/bin/python - <<P
import json, xml.etree.ElementTree as ET
base=set(json.load(open('/root/.vp/BASELINE.json'))['stable_pass'])
ok=set()
for tc in ET.parse('$OUT/junit.xml').iter('testcase'):
    if not any(ch.tag in ('failure','error','skipped') for ch in tc): ok.add(f"{tc.get('classname')}::{tc.get('name')}")
print('baseline',len(base),'passing',len(base&ok),'missing',sorted(base-ok)[:5])
P
)
for prop in $P "$@"; do
  echo "--- our quick check $prop against the change:"
  cp /verif/evidence/$prop.json /dev/shm/ev-sc-$prop.json 2>/dev/null
  (cd /verif && VERIF_REPO=$WT timeout 2400 /venv/bin/python -m sim check $prop --tier quick 2>&1 | grep -v "^KNOWN" | cut -c1-260 | tail -6)
  cp /dev/shm/ev-sc-$prop.json /verif/evidence/$prop.json 2>/dev/null; rm -f /dev/shm/ev-sc-$prop.json
  mkdir -p $OUT/replays; mv /verif/replays/$prop-* $OUT/replays/ 2>/dev/null
done
git -C /repo worktree remove --force $WT
