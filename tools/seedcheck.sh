#!/bin/bash
# usage: seedcheck.sh <PROP> <variant> [extra props to run...]
# Confirms a stored red-team change (/verif/seeded/<PROP>/<variant>) in a scratch worktree of /repo's HEAD:
# demo fails with / passes without the change, the pinned suite still passes with it, and runs our quick
# check(s) against the changed tree (VERIF_REPO) with evidence/replays redirected (VERIF_OUT).
# Writes /verif/seeded/<PROP>/<variant>/confirmed.json. Nothing is left in /repo; the worktree is removed.
P=$1; V=$2; shift; shift
SRC=/verif/seeded/$P/$V
WT=/tmp/sc-$P$V
OUT=/dev/shm/sc-out/$P$V
rm -rf $OUT; mkdir -p $OUT
git -C /repo worktree remove --force $WT 2>/dev/null; rm -rf $WT
git -C /repo worktree add -q $WT HEAD || exit 3
if ! git -C $WT apply --check $SRC/patch.diff 2>$OUT/apply.err; then
  echo "APPLY: FAILED"; head -5 $OUT/apply.err; git -C /repo worktree remove --force $WT; exit 4
fi
git -C $WT apply $SRC/patch.diff; echo "APPLY: clean"
demo=$(ls $SRC/test_demo*.py 2>/dev/null | head -1)
if [ -f $SRC/pytest.ini ]; then CFG="-c $SRC/pytest.ini"; else CFG=""; fi
run_demo() { (cd $WT && timeout 900 /venv/bin/python -m pytest -q -p no:cacheprovider $CFG --rootdir $WT $demo 2>&1 | grep -E "[0-9]+ (passed|failed|error)" | tail -1) ; }
DW=$(run_demo); echo "--- demo WITH change: $DW"
git -C $WT checkout -- .
DO=$(run_demo); echo "--- demo WITHOUT change: $DO"
git -C $WT apply $SRC/patch.diff
(cd $WT && timeout 1800 /venv/bin/python -m pytest -q -p no:cacheprovider --timeout=900 --continue-on-collection-errors --junitxml=$OUT/junit.xml > $OUT/pytest.log 2>&1)
BL=$(/venv/bin/python - <<P
import json, xml.etree.ElementTree as ET
base=set(json.load(open('/root/.vp/BASELINE.json'))['stable_pass'])
ok=set()
for tc in ET.parse('$OUT/junit.xml').iter('testcase'):
    if not any(ch.tag in ('failure','error','skipped') for ch in tc): ok.add(f"{tc.get('classname')}::{tc.get('name')}")
print(f"{len(base&ok)}/{len(base)}")
P
)
echo "--- baseline WITH change: $BL"
: > $OUT/checks.txt
for prop in $P "$@"; do
  [ "$prop" = "-" ] && continue
  echo "--- our quick check $prop against the change:"
  (cd /verif && VERIF_REPO=$WT VERIF_OUT=$OUT timeout 2400 /venv/bin/python -m sim check $prop --tier quick > $OUT/check-$prop.log 2>&1; echo "$prop exit=$?" >> $OUT/checks.txt)
  grep -v "^KNOWN" $OUT/check-$prop.log | cut -c1-260 | tail -4
done
git -C /repo worktree remove --force $WT
/venv/bin/python - <<P
import json, re, subprocess, datetime
out = {"property": "$P", "variant": "$V", "repo_head": subprocess.check_output(["git","-C","/repo","log","--format=%h","-1"]).decode().strip(),
       "verif_head": subprocess.check_output(["git","-C","/verif","log","--format=%h","-1"]).decode().strip(),
       "patch_applies_cleanly": True, "demo_with_change": """$DW""".strip(), "demo_without_change": """$DO""".strip(),
       "pinned_suite_with_change": "$BL", "checks": {}}
for line in open("$OUT/checks.txt"):
    prop, ex = line.split(); ex = int(ex.split("=")[1])
    log = open(f"$OUT/check-{prop}.log").read()
    classes = sorted(set(re.findall(r"class=(\S+)", log)))
    summ = [l for l in log.splitlines() if l.startswith(prop + " tier=")]
    out["checks"][prop] = {"command": f"VERIF_REPO=<worktree with the change> python -m sim check {prop} --tier quick", "exit": ex,
                           "caught": ex == 1 and "VIOLATION property=" in log or (ex == 1 and bool(classes)),
                           "violation_classes": classes, "summary": summ[-1] if summ else None}
out["confirmed"] = ("failed" in out["demo_with_change"] and "passed" in out["demo_without_change"] and "failed" not in out["demo_without_change"]
                    and out["pinned_suite_with_change"].split("/")[0] == out["pinned_suite_with_change"].split("/")[1])
out["caught_by"] = sorted(p for p, c in out["checks"].items() if c["caught"])
json.dump(out, open("$SRC/confirmed.json", "w"), indent=1, sort_keys=True)
print("CONFIRMED" if out["confirmed"] else "NOT-CONFIRMED", "caught_by=", out["caught_by"])
P
rm -rf $OUT
