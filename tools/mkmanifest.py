import json
CLAIMED = json.load(open('/verif/tools/claimed.json'))
NA = {
 "C01": "pure function of program text and input values (expression/assignment semantics vs CPython): no schedule, clock, peer or fault in the statement or its quantifier; deciding it needs differential program generation, a different technique",
 "C02": "pure function of the program skeleton (control-flow/exception paths vs CPython): nothing for a simulator to schedule or fault",
 "C03": "pure function of program text (calling convention, scoping, closures, classes vs CPython): no interleaving, time or fault involved",
 "C17": "predicate over (module name, import statement form, option, files present): does not depend on an interleaving, a clock or a fault",
}
props = [json.loads(l) for l in open('/verif/properties.jsonl')]
checks = []
na = []
for p in props:
    pid = p['id']
    if pid in CLAIMED:
        c = CLAIMED[pid]
        checks.append({
            "property_id": pid,
            "quick_cmd": f"cd /verif && /venv/bin/python -m sim check {pid} --tier quick",
            "thorough_cmd": f"cd /verif && /venv/bin/python -m sim check {pid} --tier thorough",
            "evidence_file": f"/verif/evidence/{pid}.json",
            "replay_cmd_template": "cd /verif && /venv/bin/python -m sim replay {path}",
            "engine": "sim",
            "level_claimed": {"category": c["category"], "text": c["text"], "design_ref": c["design_ref"]},
            "level_note": c["note"],
            "technique": c["technique"],
        })
    elif pid in NA:
        na.append({"property_id": pid, "reason": NA[pid]})
    else:
        na.append({"property_id": pid, "reason": "not claimed yet: the simulation check for this property has not been built in this session (planned, see DESIGN.md section 4)"})
m = {
 "version": 1,
 "setup_cmd": "cd /verif && /venv/bin/python -m compileall -q sim && /venv/bin/python -c \"import sim, custom_components.pyscript, sim.world; print('ok')\"",
 "hooks": {
  "guard": "PYSCRIPT_VERIF",
  "enable": "no hook inside /repo is needed: every seam is a module attribute replaced from /verif/sim/world.py at run time; the guard name is reserved",
  "baseline_off_cmd": "cd /repo && env -u PYSCRIPT_VERIF /venv/bin/python -m pytest -ra -q -p no:cacheprovider --timeout=900 --continue-on-collection-errors",
  "source_commits": [],
  "add_only": True,
 },
 "engines": [{"name": "sim", "path": "/verif/sim", "serves_properties": sorted(CLAIMED),
   "kind_free_text": "deterministic simulation with fault injection: real Home Assistant core + real pyscript on a virtual-time single-threaded asyncio loop, seeded scenario generation, reference-model oracles, ddmin shrinking, replay files"}],
 "checks": checks,
 "not_applicable": na,
 "notes": "All checks: python -m sim check <id>; exit 0 = held (KNOWN-FINDING lines for entries of known_findings.json), exit 1 + VIOLATION line = unknown violation with minimised replay file under /verif/replays, exit 2 = harness error (never a verdict). VERIF_SEED selects the seed set; VERIF_SCALE scales the number of runs.",
}
json.dump(m, open('/verif/MANIFEST.json','w'), indent=1)
try:
    import jsonschema
except ImportError:
    jsonschema = None
if jsonschema: jsonschema.validate(m, json.load(open('/root/.vp/MANIFEST.schema.json')))
print("manifest ok", len(checks), "checks", len(na), "n/a")
