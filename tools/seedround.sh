#!/bin/bash
# usage: seedround.sh <PROP> <round-dir-prefix> <variants...>   e.g. seedround.sh C20 /tmp/seed5 g h
# imports the red-team deliverables <prefix>-<PROP>/<variant> into /verif/seeded and confirms each with seedcheck.sh
P=$1; PRE=$2; shift; shift
for V in "$@"; do
  if [ ! -f $PRE-$P/$V/patch.diff ]; then echo "$P $V: no patch.diff"; continue; fi
  /verif/tools/seedimport.sh $P $V $PRE-$P/$V
  /verif/tools/seedcheck.sh $P $V 2>&1 | tail -12
done
