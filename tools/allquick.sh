#!/bin/bash
# run every claimed quick check on /repo's working tree (writes /verif/evidence/*.json); prints one line per check
cd /verif
for p in $(python3 -c "import json;print(' '.join(c['property_id'] for c in json.load(open('MANIFEST.json'))['checks']))"); do
  out=$(timeout 3600 /venv/bin/python -m sim check $p --tier quick 2>&1); rc=$?
  echo "$p rc=$rc $(echo "$out" | grep "^$p tier=" | tail -1)"
  echo "$out" | grep "^VIOLATION\|^violation" | head -5
done
