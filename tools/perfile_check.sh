#!/bin/bash
# Stronger than the pinned 88: run every tests/test_*.py file of /repo ALONE (many tests only error inside the
# full-suite run in this sandbox) at the original snapshot (bd1a45a) and at the working tree, and diff outcomes.
ORIG=${1:-bd1a45a}
run() { T=$1; O=$2; rm -rf $O; mkdir -p $O; (cd $T && ls tests/test_*.py | xargs -P 6 -I{} sh -c 'f={}; b=$(basename $f .py); timeout 900 /venv/bin/python -m pytest -q -p no:cacheprovider --timeout=120 --junitxml='$O'/$b.xml $f > '$O'/$b.log 2>&1'); }
WT=/tmp/sc-orig; git -C /repo worktree remove --force $WT 2>/dev/null
git -C /repo worktree add -q $WT $ORIG && run $WT /dev/shm/pf-orig; git -C /repo worktree remove --force $WT
run /repo /dev/shm/pf-head
python3 - <<'P'
import xml.etree.ElementTree as ET, glob
def load(d):
    out = {}
    for p in glob.glob(d + '/*.xml'):
        for tc in ET.parse(p).iter('testcase'):
            k = f"{tc.get('classname')}::{tc.get('name')}"
            res = [ch.tag for ch in tc if ch.tag in ('failure', 'error', 'skipped')]
            out[k] = res or ['pass']
    return out
a = load('/dev/shm/pf-orig'); b = load('/dev/shm/pf-head')
print('tests', len(a), len(b), 'passing', sum(v == ['pass'] for v in a.values()), sum(v == ['pass'] for v in b.values()))
bad = [k for k in sorted(set(a) | set(b)) if a.get(k) != b.get(k)]
for k in bad:
    print('DIFF', k, a.get(k), '->', b.get(k))
print('per-file outcomes identical' if not bad else f'{len(bad)} differences')
P
