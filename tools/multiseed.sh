#!/bin/bash
# usage: multiseed.sh "<seeds>" <props...>  ; runs quick checks for several VERIF_SEED values, prints one line each
seeds="$1"; shift
cd /verif
for p in "$@"; do
  for sd in $seeds; do
    out=$(VERIF_OUT=/dev/shm/ms-out VERIF_SEED=$sd timeout 3600 /venv/bin/python -m sim check $p --tier quick 2>&1)
    rc=$?
    echo "$p seed=$sd rc=$rc $(echo "$out" | tail -1)"
    if [ $rc -ne 0 ]; then echo "$out" | grep -E "^violation|HARNESS" | cut -c1-400 | head -5; fi
  done
done
