#!/bin/bash
# run the pinned suite on /repo and compare with BASELINE.json stable_pass
cd /repo && timeout 1800 /venv/bin/python -m pytest -q -p no:cacheprovider --timeout=900 --continue-on-collection-errors --junitxml=/dev/shm/junit.xml > /dev/shm/pytest.log 2>&1
tail -1 /dev/shm/pytest.log
/venv/bin/python - <<'P'
import json, xml.etree.ElementTree as ET
base=set(json.load(open('/root/.vp/BASELINE.json'))['stable_pass'])
ok=set()
for tc in ET.parse('/dev/shm/junit.xml').iter('testcase'):
    if not any(ch.tag in ('failure','error','skipped') for ch in tc): ok.add(f"{tc.get('classname')}::{tc.get('name')}")
print('baseline',len(base),'passing now',len(base&ok),'missing',sorted(base-ok)[:8])
P
