#!/bin/bash
# usage: seedrerun.sh <lanes> <variants...>  - re-run seedcheck.sh for every stored change of the given variants whose
# confirmed.json is missing or says "not confirmed", in <lanes> parallel lanes (logs: /dev/shm/rerun-<PROP><variant>.log)
LANES=$1; shift
todo=()
for V in "$@"; do
  for d in /verif/seeded/C*/$V; do
    P=$(basename $(dirname $d))
    ok=$(python3 -c "import json,sys;print(json.load(open('$d/confirmed.json')).get('confirmed'))" 2>/dev/null)
    [ "$ok" = "True" ] || todo+=("$P $V")
  done
done
printf '%s\n' "${todo[@]}" | xargs -P $LANES -L 1 bash -c '/verif/tools/seedcheck.sh $0 $1 > /dev/shm/rerun-$0$1.log 2>&1; tail -1 /dev/shm/rerun-$0$1.log | sed "s/^/$0 $1: /"'
