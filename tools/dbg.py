import sys, json, random, os
sys.path.insert(0, '/verif')
from sim.driver import load_prop, derive
prop, seed = sys.argv[1], int(sys.argv[2])
mod = load_prop(prop)
scn = mod.gen(random.Random(seed), sys.argv[3] if len(sys.argv) > 3 else "quick")
scn.update({"seed": seed, "property": prop, "hashseed": int(os.environ.get("PYTHONHASHSEED", 0))})
import sim.world as W
orig_run = W.World.run
keep = {}
def run(self, driver):
    keep['w'] = self
    return orig_run(self, driver)
W.World.run = run
res = mod.run(scn)
w = keep['w']
print(json.dumps(scn["cfg"]))
for k, v in mod.render(scn).items(): print("-----", k); print(v)
for op in scn["ops"]: print(op)
print("=== trace")
for t in w.trace: print(t)
print("=== logs")
for l in w.logs:
    if l["level"] != "INFO": print(l["vt"], l["logger"], l["level"], l["msg"][:600])
print("=== violations")
for v in res["violations"]: print(v)
if len(sys.argv) > 4:
    import pdb
    import sim.props.c04 as c
    # recompute events and patterns with debug
    viols, _, _ = c.oracle(w, scn)
