#!/bin/bash
# usage: seedcaught.sh <PROP> <variant>
# Lighter than seedcheck.sh: applies the stored change to a scratch worktree of /repo HEAD (if it still applies there)
# and runs the property's quick check against it; updates "checks"/"caught_by"/"verif_head" and adds
# "rechecked_at_repo_head" in confirmed.json (the demonstration and the pinned suite are not re-run: see "repo_head").
# HEAD itself is clean under every quick check, so whatever is reported is due to the change.
P=$1; V=$2
SRC=/verif/seeded/$P/$V; WT=/tmp/scc-$P$V; OUT=/dev/shm/scc-out/$P$V
rm -rf $OUT; mkdir -p $OUT
git -C /repo worktree remove --force $WT 2>/dev/null; rm -rf $WT
git -C /repo worktree add -q $WT HEAD || exit 3
if ! git -C $WT apply --check $SRC/patch.diff 2>/dev/null; then
  echo "$P $V: patch no longer applies to HEAD (kept the earlier record)"; git -C /repo worktree remove --force $WT; exit 0
fi
git -C $WT apply $SRC/patch.diff
(cd /verif && VERIF_REPO=$WT VERIF_OUT=$OUT VERIF_WORKERS=${VERIF_WORKERS:-8} timeout 2400 /venv/bin/python -m sim check $P --tier quick > $OUT/check.log 2>&1; echo $? > $OUT/rc)
git -C /repo worktree remove --force $WT
/venv/bin/python - <<PY
import json, re, subprocess
p = "$SRC/confirmed.json"
c = json.load(open(p))
log = open("$OUT/check.log").read(); rc = int(open("$OUT/rc").read())
classes = sorted(set(re.findall(r"class=(\S+)", log)))
summ = [l for l in log.splitlines() if l.startswith("$P tier=")]
c.setdefault("checks", {})["$P"] = {"command": "VERIF_REPO=<worktree of HEAD with the change> python -m sim check $P --tier quick", "exit": rc,
    "caught": rc == 1 and bool(classes), "violation_classes": classes, "summary": summ[-1] if summ else None}
c["caught_by"] = sorted(k for k, v in c["checks"].items() if v["caught"])
c["verif_head"] = subprocess.check_output(["git", "-C", "/verif", "log", "--format=%h", "-1"]).decode().strip()
c["rechecked_at_repo_head"] = subprocess.check_output(["git", "-C", "/repo", "log", "--format=%h", "-1"]).decode().strip()
json.dump(c, open(p, "w"), indent=1, sort_keys=True)
print("$P $V: exit", rc, "caught_by", c["caught_by"], classes[:4])
PY
rm -rf $OUT
