#!/bin/bash
# usage: seedimport.sh <PROP> <variant> <source dir>  - copy a red-team deliverable into /verif/seeded
P=$1; V=$2; SRC=$3
DST=/verif/seeded/$P/$V
mkdir -p $DST
for f in patch.diff meta.json pytest.ini conftest.py; do [ -f $SRC/$f ] && cp $SRC/$f $DST/; done
cp $SRC/test_demo*.py $DST/ 2>/dev/null
ls $DST | tr '\n' ' '; echo
