#!/bin/bash
# usage: seedimport.sh <PROP> <variant> <source dir>  - copy a red-team deliverable into /verif/seeded
P=$1; V=$2; SRC=$3
DST=/verif/seeded/$P/$V
mkdir -p $DST
for f in patch.diff meta.json pytest.ini conftest.py; do [ -f $SRC/$f ] && cp $SRC/$f $DST/; done
cp $SRC/test_demo*.py $DST/ 2>/dev/null
ls $DST | tr '\n' ' '; echo
# demos that pin the scratch worktree path they were written in: make the check follow the current directory
# (seedcheck.sh runs them with cwd = its own scratch worktree); the original is kept as test_demo.py.orig
for f in $DST/test_demo*.py; do
  if grep -q '"/tmp/wt[0-9]*-C[0-9]*/"' $f; then
    cp $f $f.orig
    sed -i -E 's#"/tmp/wt[0-9]*-C[0-9]+/"#(__import__("os").getcwd() + "/")#g' $f
  fi
done
