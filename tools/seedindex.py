#!/usr/bin/env python3
"""Write seeded/INDEX.md from seeded/<id>/<variant>/{meta.json,confirmed.json}."""
import glob
import json
import os

ROOT = os.path.dirname(os.path.dirname(os.path.abspath(__file__)))
rows = []
for conf_path in sorted(glob.glob(os.path.join(ROOT, "seeded", "C*", "*", "meta.json"))):
    d = os.path.dirname(conf_path)
    meta = json.load(open(conf_path))
    prop, var = d.split(os.sep)[-2:]
    conf = json.load(open(os.path.join(d, "confirmed.json"))) if os.path.exists(os.path.join(d, "confirmed.json")) else None
    summary = " ".join(meta.get("summary", "").split())
    short = summary[:260] + ("..." if len(summary) > 260 else "")
    if conf is None:
        rows.append(f"| {prop} {var} | {short} | not re-run | - | - |")
        continue
    caught = ", ".join(conf["caught_by"]) or "**not caught**"
    classes = []
    for p in conf["caught_by"]:
        classes += conf["checks"][p]["violation_classes"][:4]
    rows.append(f"| {prop} {var} | {short} | {'yes' if conf['confirmed'] else 'NO'} ({conf['demo_with_change']} / "
                f"{conf['demo_without_change']} / {conf['pinned_suite_with_change']}) | {caught} | {', '.join(sorted(set(classes))[:5])} |")
head = """# Independent seeded changes

Each directory `seeded/<property>/<variant>/` holds a change to `custom_components/pyscript` written by a fresh
sub-agent that was given only the text of the property and a scratch worktree (nothing from `/verif`):
`patch.diff` (relative to the `/repo` commit named in the "confirmed" column = HEAD at the time of the last
confirmation - later `fix:` commits may touch the same lines, `git -C /repo worktree add <dir> <that commit>` gives the
tree it applies to; `patch_as_submitted.diff` where a
later `fix:` commit made a rebase necessary), `test_demo.py` (+ `pytest.ini` / `conftest.py`), the sub-agent's
`meta.json` and `confirmed.json` = what `tools/seedcheck.sh <property> <variant>` observed here: the patch applies,
the demonstration fails with and passes without the change, the pinned 88 tests pass with it, and the exit code
and violation classes of the quick check(s) run against the changed tree (`VERIF_REPO=<scratch worktree>`).
None of these changes is ever committed to `/repo`.

To re-run one: `tools/seedcheck.sh C12 b` (adds a scratch worktree under /tmp, removes it afterwards).

| change | what it does (sub-agent's summary, shortened) | confirmed (demo with / without / pinned suite) | caught by | violation classes reported |
|---|---|---|---|---|
"""
open(os.path.join(ROOT, "seeded", "INDEX.md"), "w").write(head + "\n".join(rows) + "\n")
print(len(rows), "rows")
