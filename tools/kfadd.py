#!/usr/bin/env python3
"""usage: kfadd.py <id> <property> <status fixed|known> <commit|-> <class[,class]> <signature-json> <what> [<record text>]
Append an entry to known_findings.json (hand-maintained file; never written by a check)."""
import json, sys
ident, prop, status, commit, classes, sig, what = sys.argv[1:8]
rec = sys.argv[8] if len(sys.argv) > 8 else what
path = "/verif/known_findings.json"
k = json.load(open(path))
assert all(e["id"] != ident for e in k["findings"]), "duplicate id"
ent = {"id": ident, "property": prop, "class": classes.split(","), "signature": json.loads(sig), "status": status, "what": what}
if status == "fixed":
    ent["commit"] = commit
    ent["record"] = f"fixed: property={prop} {commit} {rec}"
k["findings"].append(ent)
json.dump(k, open(path, "w"), indent=1)
print("added", ident)
