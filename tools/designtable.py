#!/usr/bin/env python3
"""Regenerate the defect table of DESIGN.md section 9.2 from known_findings.json (between the two markers)."""
import json
import os

ROOT = os.path.dirname(os.path.dirname(os.path.abspath(__file__)))
d = json.load(open(os.path.join(ROOT, "known_findings.json")))
rows = []
for f in d["findings"]:
    what = f["what"].replace("|", "/")
    if len(what) > 230:
        what = what[:227] + "..."
    rows.append(f"| {f['id']} | {f['property']} | {what} | {f['status']}{(' ' + f['commit']) if f.get('commit') else ''} |")
table = "| id | property | what fails | status |\n|---|---|---|---|\n" + "\n".join(sorted(rows)) + "\n"
path = os.path.join(ROOT, "DESIGN.md")
s = open(path).read()
start = s.index("| id | property | what fails | status |")
end = s.index("\nWhy the remaining `known` entries were not repaired:")
s = s[:start] + table + s[end:]
n_fix = sum(1 for f in d["findings"] if f["status"] == "fixed")
n_known = sum(1 for f in d["findings"] if f["status"] == "known")
open(path, "w").write(s)
print(f"{len(rows)} rows ({n_fix} fixed, {n_known} known)")
